#!/bin/sh
# Offline setup: nothing is installed. Verifies the interpreter, that the library is
# imported from /repo/src (the current working tree), byte-compiles nothing into /repo,
# and runs the light determinism self-test of the simulator.
set -e
cd "$(dirname "$0")"
test -x /venv/bin/python || { echo "missing /venv/bin/python"; exit 2; }
PYTHONDONTWRITEBYTECODE=1 /venv/bin/python - <<'PY'
import sys, os
sys.path.insert(0, os.environ.get("DSIM_SRC", "/repo/src"))
import scipp, numpy, scipy, scippneutron
src = os.path.abspath(os.environ.get("DSIM_SRC", "/repo/src"))
assert os.path.abspath(scippneutron.__file__).startswith(src + os.sep), scippneutron.__file__
print("setup: scipp", scipp.__version__, "numpy", numpy.__version__, "scipy", scipy.__version__,
      "scippneutron from", os.path.dirname(scippneutron.__file__))
PY
mkdir -p evidence replays
./check selftest light
