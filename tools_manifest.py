#!/venv/bin/python
"""Regenerates MANIFEST.json from the table below (kept in one place so that the
claimed / not-applicable split always covers all 20 properties)."""
import json, os, sys
ROOT = os.path.dirname(os.path.abspath(__file__))
BUILT = {p: os.path.exists(os.path.join(ROOT, "dsim", "engines", m + ".py")) for p, m in
         {"C09": "c09", "C12": "sqw", "C13": "sqw", "C14": "cif", "C15": "xye", "C17": "fit", "C20": "atoms"}.items()}

CHECKS = {
 "C09": dict(level="exploration", design="DESIGN.md §5 C09",
   technique="deterministic simulation: seeded histories of calls/obtains/mutations by 1-3 simulated callers with settrace pre-emption; snapshot + pristine-fork reference oracles",
   text="Seeded search over call histories (up to 3 callers, mutation of returned objects, cache pressure, pre-emption between Python lines). Argument objects are snapshotted bit-exactly before/after every op and at every pre-emption point; each result is compared with the same op evaluated alone in a pristine forked process. Sampling, not proof.",
   note="Trusted: fork-from-pristine-zygote isolation, scipp pinned to one thread (bit-reproducible), canonical serialisation in dsim/canon.py; the reference is the same code without history, so only history dependence / argument mutation is judged, never formulas."),
 "C12": dict(level="fault_enumeration", design="DESIGN.md §5 C12/C13",
   technique="deterministic simulation with fault injection: seeded builder programs x chunk/byte-order/sink knobs; every write ordinal of sampled programs enumerated as ENOSPC crash point; RLIMIT_FSIZE disk-full on real files; independent SQW decoder as oracle",
   text="Builder programs (subset/order of calls, byte order, pixel count, chunk size, sink kind, scripted clock) are sampled by seed; for sampled programs every write ordinal is tried as a failing write (complete enumeration of that program's crash points) and real files are hit with disk-full at region boundaries. Oracle: independent decoder checks header, BAT, extents, exact decode lengths; acknowledgement rule under faults.",
   note="Trusted: my reading of the SQW layout in dsim/ref_sqw.py (validated on the byte strings pinned by the repo's tests); in-memory sinks are subclasses of BytesIO; only write-side faults (formats carry no integrity data)."),
 "C13": dict(level="exploration", design="DESIGN.md §5 C12/C13",
   technique="deterministic simulation: same SQW engine, content oracle (independent decode vs supplied data; package reader vs decoder; unit dimension check)",
   text="Same seeded programs as C12; the oracle decodes the written bytes independently and compares pixels (float32 single rounding), pixel metadata, experiment records, instrument/sample containers, histogram metadata and zero histogram with what the scenario supplied, then reads every block back with the package's reader and compares numbers, strings, shapes and unit dimensions.",
   note="Trusted: ref_sqw decoder; expected float32 values computed with numpy from the scenario recipe; unit conversion factors are exact powers of ten or pi/180."),
 "C14": dict(level="exploration", design="DESIGN.md §5 C14",
   technique="deterministic simulation with fault injection: seeded programs over pools of CIF builders/blocks/chunks/loops, repeated saves, derived builders, scripted clock, ENOSPC at write ordinals; independent CIF 1.1 parser as oracle",
   text="Seeded programs of builder calls (with_* derivations, copies, repeated saves, low-level chunks/loops/blocks) write through a simulated text sink or a real path; an independent CIF 1.1 parser must accept the text and recover exactly the supplied tags, values, loop shapes and order; author-role ids, ASCII-only and comment isolation are checked on every save; write faults follow the acknowledgement rule.",
   note="Trusted: dsim/ref_cif.py (written from the CIF 1.1 grammar); string-value alphabets are workload values, detections that depend only on a value are labelled so."),
 "C15": dict(level="exploration", design="DESIGN.md §5 C15",
   technique="deterministic simulation with fault injection (thin): save/load through simulated text sinks and real paths, reload in a freshly forked process, ENOSPC/RLIMIT_FSIZE faults, retry",
   text="Round trips through in-memory sinks and real files (read back in the same and in a fresh process), bit-exact coordinate/values, variances to 4 ulp, headers, refusal cases leave the sink unwritten, acknowledgement rule under write faults.",
   note="Close to a pure function; the simulator contributes the storage seam only. Trusted: numpy text I/O."),
 "C17": dict(level="fault_enumeration", design="DESIGN.md §5 C17",
   technique="deterministic simulation with fault injection: optimiser behind a proxy; every single-failure plan (peak, call ordinal) enumerated for sampled inputs, seeded multi-failure and 'other legal optimum' plans; isolation/coherence/control-flow oracles",
   text="fit_peaks runs with scipy's curve_fit behind a fault-injecting proxy: for sampled spectra every single (peak, optimiser-call) failure is enumerated, plus seeded multi-failure plans; each peak's result must equal the result of fitting that peak alone under the restricted plan, statistics are recomputed independently from popt, success implies the documented requirements, windows obey the construction rules, remove_peaks touches only successful windows.",
   note="Trusted: dsim/ref_fit.py closed forms; only RuntimeError (scipy's documented non-convergence signal) is injected."),
 "C20": dict(level="exploration", design="DESIGN.md §5 C20",
   technique="deterministic simulation with fault injection: seeded lookup histories by 1-3 simulated callers, lru_cache pressure/eviction, settrace pre-emption inside the CSV scan, OSError at open/n-th readline with retry; all 4046 rows swept; csv-module reference model",
   text="Every row of the three tables is looked up (miss and post-eviction) in each quick run; seeded histories interleave callers, near-miss names, cache pressure, pre-emption inside the scan loop and injected open/readline failures followed by one retry. Every answer is compared field by field with an independent parse of the CSVs; every other name must raise; 1/v law evaluated on looked-up parameters.",
   note="Trusted: csv-module parse of the same files; exact float equality (same float(str)); any exception counts as rejection; histories are sampled, the name space is enumerated."),
}

NA = {
 "C01": "pure float kinematics kernels: no I/O, shared state, clock or fallible dependency for a simulator to schedule or fault",
 "C02": "convert() outcome is a pure function of (origin, target, scatter, coords); the only stateful aspect (graph tables cannot be corrupted via returned graphs) is decided under C09",
 "C03": "pure vector geometry; no seam",
 "C04": "two pure code paths selected by an input predicate; no nondeterminism, state or fault",
 "C05": "pure formulas + where(); no seam",
 "C06": "per-event application of pure kernels by scipp; input-not-modified clause covered incidentally by C09",
 "C07": "finite unit x dtype grid over pure functions: enumeration, not simulation",
 "C08": "pure linear algebra; no seam",
 "C10": "frozen value object with pure methods; uuid4 temp-dim name is result-invariant",
 "C11": "immutable-by-convention values and pure chop/propagate; no state outside the values, no I/O, nothing fallible",
 "C16": "closed-form pure functions of (x, params); combinator independence is part of C09",
 "C18": "pure geometry and fixed quadrature tables; only RNG is in the excluded 'mc' kind",
 "C19": "pure functions of a series; uuid4 names a temporary coordinate that is removed before returning",
}

def main():
    checks = []
    na = [{"property_id": k, "reason": "not applicable to deterministic simulation: " + v} for k, v in sorted(NA.items())]
    for pid, c in sorted(CHECKS.items()):
        if not BUILT[pid]:
            na.append({"property_id": pid, "reason": "in scope for simulation (DESIGN.md §5) but its check is not built yet in this commit; not claimed until it is"})
            continue
        checks.append({
            "property_id": pid,
            "quick_cmd": f"./check {pid} quick",
            "thorough_cmd": f"./check {pid} thorough",
            "evidence_file": f"/verif/evidence/{pid}.json",
            "replay_cmd_template": "./check replay {path}",
            "engine": "dsim",
            "level_claimed": {"category": c["level"], "text": c["text"], "design_ref": c["design"]},
            "level_note": c["note"],
            "technique": c["technique"],
        })
    na.sort(key=lambda e: e["property_id"])
    man = {
        "version": 1,
        "setup_cmd": "./setup.sh",
        "hooks": {
            "guard": "SCIPPNEUTRON_VERIF",
            "enable": "no hooks exist: every seam is a module attribute replaced from outside (dsim/seams.py), a sink object passed through the public API, or an OS facility (RLIMIT_FSIZE, fork, CPU affinity); checks import scippneutron from /repo/src (current working tree)",
            "baseline_off_cmd": "cd /repo && /venv/bin/python -m pytest -ra -q -p no:cacheprovider --timeout=900 --continue-on-collection-errors",
            "source_commits": [],
            "add_only": True,
        },
        "engines": [{
            "name": "dsim", "path": "/verif/dsim",
            "serves_properties": [c["property_id"] for c in checks],
            "kind_free_text": "deterministic simulator: fork-per-run from a pristine single-threaded zygote, one PRNG per run derived from VERIF_SEED, scenario = replay file, seams for storage/clock/optimiser/table files, settrace pre-emption, ddmin-style minimisation",
        }],
        "checks": checks,
        "not_applicable": na,
        "notes": "Exit codes: 0 held (possibly with KNOWN-FINDING lines), 1 unlisted violation (VIOLATION line + replay), 2 harness problem (never a pass). See DESIGN.md.",
    }
    with open(os.path.join(ROOT, "MANIFEST.json"), "w") as f:
        json.dump(man, f, indent=1)
        f.write("\n")
    print("MANIFEST.json:", len(checks), "checks,", len(na), "not applicable")

main()
