#!/venv/bin/python
"""Regenerates MANIFEST.json from the table below (kept in one place so that the
claimed / not-applicable split always covers all 20 properties)."""
import json, os, sys
ROOT = os.path.dirname(os.path.abspath(__file__))
BUILT = {p: os.path.exists(os.path.join(ROOT, "dsim", "engines", m + ".py")) for p, m in
         {"C09": "c09", "C12": "sqw", "C13": "sqw", "C14": "cif", "C15": "xye", "C17": "fit", "C20": "atoms"}.items()}

CHECKS = {
 "C09": dict(level="exploration", design="DESIGN.md §5 C09, §9.2",
   technique="deterministic simulation: seeded histories of call/obtain/derive/mutate/observe ops by 1-3 simulated callers over a shared argument pool, settrace pre-emption (nested ops of another caller, incl. re-entrant calls of the same function), enumerated aliasing grid (unit x dtype x shape per argument) and re-entrancy sweep; bit-exact argument snapshots + lineage replay in a pristine forked reference process as oracles",
   text="Seeded search over call histories (up to 3 callers, 12 ops, mutation of handed-out objects, shared arguments, pre-emption between Python lines with nested operations of another caller). Every pool argument is snapshotted bit-exactly before the library sees it, after every op and at every pre-emption point; every result is compared with the op's own lineage replayed alone by a reference server forked from the pristine run. An enumerated aliasing grid (~2200 one-op cases) and a re-entrancy sweep (every catalogued call re-entered by a second caller at 7 points) run in every check. Sampling of histories, enumeration of the grid; not proof.",
   note="Trusted: fork-from-pristine-zygote isolation, scipp pinned to one thread (bit-reproducible), canonical serialisation in dsim/canon.py (dims compared in sorted layout). The reference is the same code without history, so only history dependence / argument mutation is judged, never formulas. The catalogue (43 calls, 50 factories, 27 derivations) is hand-written; its module coverage is reported in the evidence."),
 "C12": dict(level="fault_enumeration", design="DESIGN.md §5 C12/C13, §9.2",
   technique="deterministic simulation with fault injection: seeded builder programs (subset/order/repeats of calls, refused calls, builder re-use, refused create() of another builder first) x chunk/byte-order/sink/clock knobs; every write ordinal of sampled programs enumerated as ENOSPC crash point with retry on the same builder; RLIMIT_FSIZE disk-full on real files at region boundaries; a second simulated caller's create() scheduled at line boundaries / source lines / inside sink writes of the first (enumerated sweep for canonical programs); interruption (KeyboardInterrupt-like) at line boundaries / inside writes followed by continued use; independent SQW decoder as oracle",
   text="Builder programs are sampled by seed; for sampled programs EVERY write ordinal of the fault-free twin is replayed as the first failing write (complete enumeration of that program's crash points; the medium stays full), real files are hit with disk-full at every region boundary +-1 and inside the last stdio buffer, and after the fault clears the very builder that failed creates the file again. Oracle: independent decoder checks header, BAT (each block once, order independent of call order via a permuted twin), contiguous extents ending at EOF, exact decode lengths; acknowledgement rule under faults.",
   note="Trusted: my reading of the SQW layout in dsim/ref_sqw.py (self-tested on a hand-assembled file and the byte strings pinned by the repo's tests); in-memory sinks are BytesIO subclasses; only write-side faults (the format carries no integrity data); programs are sampled, crash points of a sampled program are enumerated (evidence says per run whether completely)."),
 "C13": dict(level="exploration", design="DESIGN.md §5 C12/C13, §9.2",
   technique="deterministic simulation: same SQW engine (programs, knobs, builder re-use, shared run variables, refused calls, refused create() prelude, thin fault family); content oracle = independent decode vs supplied data (pristine copies), package reader vs supplied incl. unit-dimension check, input-object snapshots; two interleaved create() calls must each give their own content",
   text="Same seeded programs as C12. The written bytes are decoded independently and compared with what the scenario supplied: pixels (float32, single rounding, computed from pristine copies with scipp.to_unit), pixel metadata, one experiment record per run (1-based ids, meV, rad, direct and indirect mode), shared instrument/sample containers, histogram metadata and zero histogram; every block is then read with the package's reader and compared incl. the physical dimension of every unit. The same builder and input objects are used for a second create(); inputs must be bit-identical afterwards.",
   note="Trusted: ref_sqw decoder; scipp unit conversion; the reader is only consulted for structurally sound files."),
 "C14": dict(level="exploration", design="DESIGN.md §5 C14, §9.2",
   technique="deterministic simulation with fault injection: seeded programs over pools of CIF builders/blocks/chunks/loops (derivations, copies, repeated saves, refused operations followed by continued use), scripted clock, ENOSPC at every write ordinal of a save followed by a save of the same builder, RLIMIT_FSIZE on paths, a second caller's save interleaved at line boundaries / inside sink writes, interruption of a save followed by saving again, caller-side in-place change of column variables between saves; independent CIF 1.1 parser + reference model of the program as oracle; known finding attributed by counterfactual",
   text="Seeded programs of builder calls write through a simulated text sink or a real path; an independent CIF 1.1 parser must accept every saved text and recover exactly the supplied tags, values (strings up to surrounding blanks, numbers to printed precision, value(su), sqrt(variance) columns), loop shapes and order; author-role ids, ASCII-only and comment isolation are checked on every save; failed saves (every write ordinal) are followed by a save of the same builder that must be complete. String values and comments come from a labelled hazard alphabet incl. long text around the 80/2048 character line limits; 10 % of runs switch their process to the POSIX locale.",
   note="Trusted: dsim/ref_cif.py (written from the CIF 1.1 grammar, self-tested on 24 hand-made documents). One recorded finding (F-C14-1: text with a line starting ';' has no CIF 1.1 representation) is attributed by counterfactual and reported as KNOWN-FINDING."),
 "C15": dict(level="exploration", design="DESIGN.md §5 C15, §9.2",
   technique="deterministic simulation with fault injection (thin): save/load through simulated text sinks and real paths, reload in a freshly forked process, ENOSPC at every write ordinal / RLIMIT_FSIZE, retry, same target rewritten with other data, a second caller's save interleaved at every line of xye.py and every sink write (enumerated), interruption at every such point followed by saving again, process locale (UTF-8 / POSIX) as a knob",
   text="Round trips through in-memory sinks and real files (read back in the same and in a freshly forked process), bit-exact coordinate/values, variances to 4 ulp, ASCII headers incl. control characters, hostile coordinate names (they end up in the generated header), the eleven refusal cases (incl. 0-d masks) leave the target unwritten, acknowledgement rule under write faults, retry after the fault, and a second data set written to the same target must be what is loaded afterwards.",
   note="Close to a pure function; the simulator contributes the storage seam (sink kind, faults, rewrite, restart). Trusted: numpy text I/O."),
 "C17": dict(level="fault_enumeration", design="DESIGN.md §5 C17, §9.2",
   technique="deterministic simulation with fault injection: scipy's curve_fit behind a proxy that numbers, logs, fails (RuntimeError) or perturbs ('another legal optimum') individual optimiser calls; every single-failure plan (peak, call ordinal) enumerated for sampled inputs under a deterministic cost cap; isolation (multi-peak vs single-peak under the restricted plan; a second caller's fit_peaks interleaved at source lines of _fit_peaks.py, enumerated for a canonical input; interruption inside fit_peaks followed by the same call), attempt-order, model-selection decomposition, coherence, requirements, window and removal oracles",
   text="For sampled spectra every optimiser call of the fault-free run is failed once (one plan per call; subsampled only above a deterministic cost bound, stated in the evidence), plus 'everything fails', 'every full fit of peak i fails' and seeded mixed plans. Each peak's result must equal fitting that peak alone under the restricted plan; bystander peaks must be bit-identical to the fault-free run; attempts follow the documented order; statistics are recomputed independently; success implies every requirement incl. an independently fitted background AIC; automatic windows obey their rules; remove_peaks touches only successful windows.",
   note="Trusted: dsim/ref_fit.py closed forms (cross-checked against FitResult.eval_model with a conditioning-aware tolerance); only RuntimeError (scipy's documented non-convergence signal) is injected; no optimiser numerics are predicted."),
 "C20": dict(level="exploration", design="DESIGN.md §5 C20, §9.2",
   technique="deterministic simulation with fault injection: seeded lookup histories by 1-3 simulated callers, lru_cache pressure/eviction, settrace pre-emption inside the CSV scan (another caller's lookup mid-scan), OSError at open / n-th readline with retry, interruption inside a lookup followed by the same lookup, re-used Material objects, process locale (UTF-8 / POSIX: default text encoding of open()) as a knob; all 4046 rows swept; csv-module reference model",
   text="Every row of the three tables is looked up (miss and post-eviction) in each check; seeded histories interleave callers, near-miss names (looked up repeatedly), cache pressure, pre-emption inside the scan loop and injected open/readline failures followed by one retry. Every answer is compared field by field with an independent parse of the CSVs; every other name must raise; the 1/v law is evaluated on looked-up parameters with fresh and re-used Material objects.",
   note="Trusted: csv-module parse of the same files; exact float equality (same float(str)); any exception counts as rejection; histories are sampled, the name space is enumerated."),
}

NA = {
 "C01": "pure float kinematics kernels: no I/O, shared state, clock or fallible dependency for a simulator to schedule or fault",
 "C02": "convert() outcome is a pure function of (origin, target, scatter, coords); the only stateful aspect (graph tables cannot be corrupted via returned graphs) is decided under C09",
 "C03": "pure vector geometry; no seam",
 "C04": "two pure code paths selected by an input predicate; no nondeterminism, state or fault",
 "C05": "pure formulas + where(); no seam",
 "C06": "per-event application of pure kernels by scipp; input-not-modified clause covered incidentally by C09",
 "C07": "finite unit x dtype grid over pure functions: enumeration, not simulation",
 "C08": "pure linear algebra; no seam",
 "C10": "frozen value object with pure methods; uuid4 temp-dim name is result-invariant",
 "C11": "immutable-by-convention values and pure chop/propagate; no state outside the values, no I/O, nothing fallible",
 "C16": "closed-form pure functions of (x, params); combinator independence is part of C09",
 "C18": "pure geometry and fixed quadrature tables; only RNG is in the excluded 'mc' kind",
 "C19": "pure functions of a series; uuid4 names a temporary coordinate that is removed before returning",
}

def main():
    checks = []
    na = [{"property_id": k, "reason": "not applicable to deterministic simulation: " + v} for k, v in sorted(NA.items())]
    for pid, c in sorted(CHECKS.items()):
        if not BUILT[pid]:
            na.append({"property_id": pid, "reason": "in scope for simulation (DESIGN.md §5) but its check is not built yet in this commit; not claimed until it is"})
            continue
        checks.append({
            "property_id": pid,
            "quick_cmd": f"./check {pid} quick",
            "thorough_cmd": f"./check {pid} thorough",
            "evidence_file": f"/verif/evidence/{pid}.json",
            "replay_cmd_template": "./check replay {path}",
            "engine": "dsim",
            "level_claimed": {"category": c["level"], "text": c["text"], "design_ref": c["design"]},
            "level_note": c["note"],
            "technique": c["technique"],
        })
    na.sort(key=lambda e: e["property_id"])
    man = {
        "version": 1,
        "setup_cmd": "./setup.sh",
        "hooks": {
            "guard": "SCIPPNEUTRON_VERIF",
            "enable": "no hooks exist: every seam is a module attribute replaced from outside (dsim/seams.py), a sink object passed through the public API, or an OS facility (RLIMIT_FSIZE, fork, CPU affinity); checks import scippneutron from /repo/src (current working tree)",
            "baseline_off_cmd": "cd /repo && /venv/bin/python -m pytest -ra -q -p no:cacheprovider --timeout=900 --continue-on-collection-errors",
            "source_commits": [],
            "add_only": True,
        },
        "engines": [{
            "name": "dsim", "path": "/verif/dsim",
            "serves_properties": [c["property_id"] for c in checks],
            "kind_free_text": "deterministic simulator: fork-per-run from a pristine single-threaded zygote, one PRNG per run derived from VERIF_SEED, scenario = replay file, seams for storage/clock/optimiser/table files, settrace pre-emption, ddmin-style minimisation",
        }],
        "checks": checks,
        "not_applicable": na,
        "notes": "Exit codes: 0 held (possibly with KNOWN-FINDING lines), 1 unlisted violation (VIOLATION line + replay), 2 harness problem (never a pass). Every check also executes the pinned scenarios of known_findings.json and the regression scenarios under regressions/<id>/. ./check replay <file> re-runs a replay file; ./check selftest light|full checks determinism; ./check sensitivity runs the checks against seeded/ (97 entries: property-breaking changes must be reported, correct refactorings must pass quietly). See DESIGN.md section 9.",
    }
    with open(os.path.join(ROOT, "MANIFEST.json"), "w") as f:
        json.dump(man, f, indent=1)
        f.write("\n")
    print("MANIFEST.json:", len(checks), "checks,", len(na), "not applicable")

main()
