#!/bin/sh
# usage: tools_sweep.sh "<props>" "<seeds>" [tier]   -- multi-seed soak; prints one line per run
cd "$(dirname "$0")"
tier=${3:-quick}
for s in $2; do for p in $1; do
  out=$(VERIF_SEED=$s ./check $p $tier 2>&1); code=$?
  echo "seed=$s prop=$p exit=$code :: $(echo "$out" | tail -1)"
  if [ $code -ne 0 ]; then echo "$out" | grep -v "^runs=" | head -20 | cut -c1-400; fi
done; done
