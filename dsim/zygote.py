"""Zygote: a pristine interpreter that forks one child per simulated run.

Started by the driver as ``python zygote.py '<json config>'`` with PYTHONHASHSEED
fixed.  Pins itself to one CPU *before* importing scipp (so that scipp's thread pool
has a single thread: bit-reproducible reductions, fork-safe), imports the engine and
the library, installs the seams, and then serves line-oriented JSON commands on
stdin/stdout.  The zygote itself never executes a library operation: every scenario
runs in a forked child that starts from the same untouched image.
"""

from __future__ import annotations

import json
import os
import select
import shutil
import signal
import sys
import time
import traceback

CONFIG = json.loads(sys.argv[1])

# --- 1. pin before anything heavy is imported --------------------------------
_cpus = sorted(os.sched_getaffinity(0))
_cpu = _cpus[CONFIG.get("cpu", 0) % len(_cpus)]
os.sched_setaffinity(0, {_cpu})
for _v in ("OMP_NUM_THREADS", "OPENBLAS_NUM_THREADS", "MKL_NUM_THREADS", "TBB_NUM_THREADS"):
    os.environ[_v] = "1"

VERIF_ROOT = os.path.dirname(os.path.dirname(os.path.abspath(__file__)))
SRC = os.path.abspath(CONFIG.get("src") or "/repo/src")
sys.path.insert(0, SRC)
sys.path.insert(0, VERIF_ROOT)

import faulthandler  # noqa: E402
import random  # noqa: E402
import warnings  # noqa: E402

from dsim import core  # noqa: E402
from dsim.engines import load_engine  # noqa: E402

warnings.simplefilter("ignore")

import scippneutron  # noqa: E402

if not os.path.abspath(scippneutron.__file__).startswith(SRC + os.sep):
    print(
        json.dumps(
            {"fatal": f"scippneutron imported from {scippneutron.__file__}, not {SRC}"}
        ),
        flush=True,
    )
    sys.exit(3)

ENGINE = load_engine(CONFIG["prop"])
ENGINE.setup()

_OUT = sys.stdout
sys.stdout = sys.stderr  # library prints must not corrupt the protocol


def _reply(obj) -> None:
    _OUT.write(json.dumps(obj, default=core._jdefault) + "\n")
    _OUT.flush()


def _thread_count() -> int:
    try:
        with open("/proc/self/status") as f:
            for line in f:
                if line.startswith("Threads:"):
                    return int(line.split()[1])
    except OSError:
        pass
    return -1


def _child_main(wfd: int, job: dict) -> None:
    """Runs in the forked child. Never returns."""
    code = 0
    try:
        faulthandler.enable(file=sys.stderr)
        faulthandler.dump_traceback_later(job.get("timeout", 120) * 0.9, exit=False)
        scratch = os.path.join(core.scratch_root(), f"dsim.{os.getpid()}")
        if os.path.lexists(scratch):
            # left behind by a killed run whose pid has been re-used: no live process owns it
            shutil.rmtree(scratch, ignore_errors=True)
        os.mkdir(scratch)
        os.environ["DSIM_SCRATCH"] = scratch
        if "scenario" in job:
            scenario = job["scenario"]
        else:
            rng = random.Random(job["seed"])
            scenario = ENGINE.generate(rng, job["tier"], job["i"])
            scenario["seed"] = job["seed"]
        ctx = core.Ctx(ENGINE.prop)
        ctx.log("seed", scenario.get("seed"))
        core.apply_process_env(scenario, ctx)
        ENGINE.execute(scenario, ctx, scratch)
        res = ctx.result()
        res["scen_digest"] = core.h64(core.jdump(scenario))
        res["nontrivial"] = bool(ENGINE.nontrivial(scenario, res))
        if res["violations"] or job.get("want_scenario"):
            res["scenario"] = scenario
        if job.get("want_sample"):
            res["sample"] = ENGINE.describe(scenario)
        if job.get("want_events"):
            res["events"] = ctx.events
        payload = json.dumps(res, default=core._jdefault)
    except BaseException:  # harness defect, reported as such
        payload = json.dumps({"harness_error": traceback.format_exc()[-4000:]})
        code = 2
    try:
        data = payload.encode()
        off = 0
        while off < len(data):
            off += os.write(wfd, data[off : off + 65536])
        os.close(wfd)
    finally:
        os._exit(code)


def run_forked(job: dict) -> dict:
    timeout = job.get("timeout", 120)
    rfd, wfd = os.pipe()
    pid = os.fork()
    if pid == 0:
        os.close(rfd)
        _child_main(wfd, job)
    os.close(wfd)
    chunks = []
    deadline = time.monotonic() + timeout
    timed_out = False
    while True:
        left = deadline - time.monotonic()
        if left <= 0:
            timed_out = True
            break
        r, _, _ = select.select([rfd], [], [], left)
        if not r:
            timed_out = True
            break
        b = os.read(rfd, 1 << 20)
        if not b:
            break
        chunks.append(b)
    os.close(rfd)
    if timed_out:
        try:
            os.kill(pid, signal.SIGKILL)
        except ProcessLookupError:
            pass
    _, status = os.waitpid(pid, 0)
    shutil.rmtree(os.path.join(core.scratch_root(), f"dsim.{pid}"), ignore_errors=True)
    if timed_out:
        return {"harness_error": f"run timed out after {timeout}s (killed)"}
    raw = b"".join(chunks)
    if not raw:
        return {"harness_error": f"child died without result, wait status {status}"}
    try:
        return json.loads(raw)
    except ValueError:
        return {"harness_error": f"unparsable child output ({len(raw)} bytes)"}


def do_batch(cmd: dict) -> dict:
    t0 = time.monotonic()
    prop, tier, vseed = ENGINE.prop, cmd["tier"], cmd["verif_seed"]
    out = {
        "runs": 0,
        "nontrivial_digests": [],
        "scen_digests": [],
        "shapes": [],
        "sites": [],
        "counters": {},
        "probes": {},
        "faults": {},
        "digests": {},
        "failures": [],
        "n_failures": 0,
        "harness_errors": [],
        "samples": [],
        "n_events": 0,
        "sim_time_span_s": 0.0,
        "threads": _thread_count(),
    }
    nontriv, scen, shapes, sites = set(), set(), set(), set()
    max_fail = cmd.get("max_failures", 40)
    n_samples = cmd.get("samples", 2)
    deadline = cmd.get("deadline_s")
    if "indices" in cmd:
        todo = list(cmd["indices"])
    else:
        todo = range(cmd["start"], cmd["stop"], cmd["step"])
    for i in todo:
        if deadline is not None and time.monotonic() - t0 > deadline:
            out["stopped_at_deadline"] = i
            break
        seed = core.run_seed(vseed, prop, tier, i)
        job = {
            "seed": seed,
            "tier": tier,
            "i": i,
            "timeout": cmd.get("timeout", 120),
            "want_sample": len(out["samples"]) < n_samples,
        }
        res = run_forked(job)
        out["runs"] += 1
        if "harness_error" in res:
            out["harness_errors"].append({"i": i, "seed": seed, "error": res["harness_error"]})
            if len(out["harness_errors"]) >= 5:
                break
            continue
        out["digests"][str(i)] = res["digest"]
        out["n_events"] += res["n_events"]
        out["sim_time_span_s"] += res.get("sim_time_span_s", 0.0)
        scen.add(res["scen_digest"])
        if res["nontrivial"]:
            nontriv.add(res["scen_digest"])
        shapes.add(res["shape"])
        sites.update(res["sites"])
        core.merge_counts(out["counters"], res["counters"])
        core.merge_counts(out["probes"], res["probes"])
        for k, (c, f) in res["faults"].items():
            e = out["faults"].setdefault(k, [0, 0])
            e[0] += c
            e[1] += f
        if "sample" in res:
            out["samples"].append(res["sample"])
        if res["violations"]:
            out["n_failures"] += 1
            if len(out["failures"]) < max_fail:
                out["failures"].append(
                    {
                        "i": i,
                        "seed": seed,
                        "violations": res["violations"],
                        "scenario": res["scenario"],
                        "digest": res["digest"],
                    }
                )
    out["nontrivial_digests"] = sorted(nontriv)
    out["scen_digests"] = sorted(scen)
    out["shapes"] = sorted(shapes)
    out["sites"] = sorted(sites)
    out["wall_s"] = time.monotonic() - t0
    return out


def main() -> None:
    meta = {
        "prop": ENGINE.prop,
        "level": ENGINE.level,
        "title": ENGINE.title,
        "rule": ENGINE.rule,
        "assumptions": list(ENGINE.assumptions),
        "components_real": list(ENGINE.components_real),
        "components_stubbed": list(ENGINE.components_stubbed),
        "fault_kinds_not_applicable": list(ENGINE.fault_kinds_not_applicable),
        "budget": {t: ENGINE.budget(t) for t in ("quick", "thorough")},
        "selftest_indices": {str(n): ENGINE.selftest_indices(n) for n in (8, 12, 48, 200)},
        "timeout": {t: ENGINE.timeout(t) for t in ("quick", "thorough")},
        "deadline": {t: ENGINE.deadline(t) for t in ("quick", "thorough")},
        "extra": ENGINE.extra_meta(),
    }
    _reply({"ready": True, "cpu": _cpu, "threads": _thread_count(), "src": SRC,
            "hashseed": os.environ.get("PYTHONHASHSEED"), "meta": meta})
    for line in sys.stdin:
        line = line.strip()
        if not line:
            continue
        cmd = json.loads(line)
        c = cmd.get("cmd")
        try:
            if c == "quit":
                break
            elif c == "batch":
                _reply(do_batch(cmd))
            elif c == "exec":
                _reply(run_forked(cmd))
            elif c == "shrink":
                cands = []
                for cand in ENGINE.shrink(cmd["scenario"], cmd.get("violation")):
                    cands.append(cand)
                    if len(cands) >= cmd.get("max", 200):
                        break
                _reply({"candidates": cands})
            elif c == "counterfactual":
                _reply({"scenario": ENGINE.counterfactual(cmd["name"], cmd["scenario"])})
            elif c == "gen":
                rng = random.Random(cmd["seed"])
                s = ENGINE.generate(rng, cmd["tier"], cmd.get("i", 0))
                s["seed"] = cmd["seed"]
                _reply({"scenario": s})
            else:
                _reply({"harness_error": f"unknown command {c!r}"})
        except Exception:
            _reply({"harness_error": traceback.format_exc()[-4000:]})


if __name__ == "__main__":
    main()
