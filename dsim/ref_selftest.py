"""Examples for the reference parsers/decoders that do not come from the library:
CIF snippets constructed from the CIF 1.1 syntax rules, and a hand-assembled SQW file."""

from __future__ import annotations

import struct

from . import ref_cif, ref_sqw

CIF_OK = [
    ("#\\#CIF_1.1\ndata_x\n_a 1\n_b 'two words'\n_c \"it's\"\n", [("pair", "_a", "1"), ("pair", "_b", "two words"), ("pair", "_c", "it's")]),
    ("data_x\nloop_\n_a\n_b\n1 2\n3 4\n", [("loop", ["_a", "_b"], [["1", "2"], ["3", "4"]])]),
    ("data_x\n_t\n;line one\nline two\n;\n_u 5\n", [("pair", "_t", "line one\nline two"), ("pair", "_u", "5")]),
    ("data_x\n_a 'a'b'\n", [("pair", "_a", "a'b")]),  # quote followed by non-blank does not terminate
    ("data_x\n_a a;b\n_b ?\n_c .\n", [("pair", "_a", "a;b"), ("pair", "_b", "?"), ("pair", "_c", ".")]),
    ("data_x # comment\n_a 1 # trailing\n", [("pair", "_a", "1")]),
    ("data_x\r\n_a 1\r\n", [("pair", "_a", "1")]),
    ("DATA_x\n_a 1\n", [("pair", "_a", "1")]),
]
CIF_BAD = [
    "data_x\n_a _b\n",            # tag without value
    "data_x\n_a #x\n",            # comment instead of value
    "data_x\n_a $x\n",            # reserved first character
    "data_x\n_a [x]\n",
    "data_x\n_a loop_\n",         # reserved word as value
    "data_x\n_a data_y\n_b 1\n_a 2\n",
    "data_x\n_a 1 2\n",           # value without tag
    "data_x\n_a 'unterminated\n",
    "data_x\n_a\n;text never closed\n",
    "data_x\nloop_\n_a\n_b\n1 2 3\n",  # not a multiple
    "data_x\nloop_\n_a\n",        # no values
    "_a 1\n",                      # outside a data block
    "data_\n_a 1\n",               # empty block name
    "data_x\n_a café\n",      # non-ASCII
    "data_x\n_a 1\n_A 2\n",        # duplicate tag (case-insensitive)
    "data_x\n_a a\tb\n",           # two values
]


def run() -> int:
    bad = 0
    for text, want in CIF_OK:
        try:
            doc = ref_cif.parse(text)
            got = []
            for it in doc["blocks"][0]["items"]:
                if it[0] == "pair":
                    got.append(("pair", it[1], it[2][1]))
                else:
                    got.append(("loop", it[1], [[v[1] for v in row] for row in it[2]]))
            if got != want:
                print(f"ref_cif selftest: {text!r} parsed to {got}, expected {want}")
                bad += 1
        except ref_cif.CifSyntaxError as e:
            print(f"ref_cif selftest: valid document rejected: {text!r}: {e}")
            bad += 1
    for text in CIF_BAD:
        try:
            ref_cif.parse(text)
            print(f"ref_cif selftest: invalid document accepted: {text!r}")
            bad += 1
        except ref_cif.CifSyntaxError:
            pass
    for txt, want in (("1.5", (1.5, None)), ("13.6(8)", (13.6, 0.8)), ("1230(50)", (1230.0, 50.0)),
                      ("-3(2)", (-3.0, 2.0)), ("1.2e3(4)", (1200.0, 400.0)), ("abc", None), ("1.2.3", None)):
        got = ref_cif.parse_number(txt)
        if (got is None) != (want is None) or (got and (abs(got[0] - want[0]) > 1e-12 or
                                                        (got[1] is None) != (want[1] is None) or
                                                        (got[1] is not None and abs(got[1] - want[1]) > 1e-9 * want[1]))):
            print(f"ref_cif selftest: parse_number({txt!r}) = {got}, expected {want}")
            bad += 1
    # hand-assembled little-endian SQW: header, BAT with one data block holding a 1-field struct
    def s(x):
        return struct.pack("<I", len(x)) + x
    block = bytes([24, 1]) + struct.pack("<I", 1) + struct.pack("<I", 1) + struct.pack("<I", 1) + b"t" + \
        bytes([23, 2]) + struct.pack("<II", 1, 1) + bytes([1, 1]) + struct.pack("<I", 2) + b"hi"
    hdr = struct.pack("<I", 6) + b"horace" + struct.pack("<dII", 4.0, 1, 0)
    desc = s(b"data_block") + s(b"") + s(b"main_header")
    bat_body_len = 4 + len(desc) + 8 + 4 + 4
    pos = len(hdr) + 4 + bat_body_len
    bat = struct.pack("<I", bat_body_len) + struct.pack("<I", 1) + desc + struct.pack("<QII", pos, len(block), 0)
    buf = hdr + bat + block
    d = ref_sqw.decode_file(buf)
    if d["problems"] or d["byteorder"] != "<" or ref_sqw.sval(ref_sqw.one_struct(d["blocks"][("", "main_header")]["value"])["t"]) != "hi":
        print(f"ref_sqw selftest: hand-assembled file not decoded: {d['problems']}")
        bad += 1
    d2 = ref_sqw.decode_file(buf[:-1])
    if not any(c in ("eof", "decode") for c, _ in d2["problems"]):
        print("ref_sqw selftest: truncated file not flagged")
        bad += 1
    # the big-endian header pinned by the repository's own test
    be = b"\x00\x00\x00\x06horace\x40\x10\x00\x00\x00\x00\x00\x00\x00\x00\x00\x01\x00\x00\x00\x00"
    if ref_sqw.detect_byteorder(be) != ">" or ref_sqw.decode_header(ref_sqw.R(be, ">"))["prog_version"] != 4.0:
        print("ref_sqw selftest: pinned big-endian header not decoded")
        bad += 1
    print(f"reference-model selftest: {len(CIF_OK)} valid + {len(CIF_BAD)} invalid CIF documents, number forms, "
          f"hand-assembled SQW: problems={bad}")
    return bad
