"""Core data structures of the simulator: seeds, event log, run context.

Everything here is deliberately free of scipp / numpy so that the driver process
(which never imports the library) can use it too.
"""

from __future__ import annotations

import hashlib
import json
import math
import os
import struct
import sys
from typing import Any


def h64(data: bytes | str) -> str:
    if isinstance(data, str):
        data = data.encode("utf-8", "surrogatepass")
    return hashlib.blake2b(data, digest_size=8).hexdigest()


def run_seed(verif_seed: int, prop: str, tier: str, i: int) -> int:
    """One integer decides everything for run ``i``."""
    d = hashlib.blake2b(
        f"{verif_seed}/{prop}/{tier}/{i}".encode(), digest_size=8
    ).digest()
    return int.from_bytes(d, "big")


def sub_seed(seed: int, label: str) -> int:
    d = hashlib.blake2b(f"{seed}/{label}".encode(), digest_size=8).digest()
    return int.from_bytes(d, "big")


def jdump(obj: Any) -> str:
    """Canonical JSON: sorted keys, no whitespace, floats via repr (round-trip)."""
    return json.dumps(obj, sort_keys=True, separators=(",", ":"), default=_jdefault)


def _jdefault(o: Any) -> Any:
    if isinstance(o, bytes | bytearray | memoryview):
        return {"$b": bytes(o).hex()}
    if isinstance(o, set | frozenset):
        return sorted(o)
    if isinstance(o, tuple):
        return list(o)
    raise TypeError(f"not JSON-able: {type(o)!r}")


def fbits(x: float) -> str:
    """Exact bits of a float (NaN payloads normalised)."""
    if isinstance(x, float) and math.isnan(x):
        return "nan"
    return struct.pack(">d", float(x)).hex()


class Violation(dict):
    """{clause, msg, sig} — ``sig`` is the stable signature used for grouping,
    shrinking ("same violation class") and matching against known findings."""


class Ctx:
    """Per-run context: ordered event log + counters.  No PRNG, no clock here."""

    def __init__(self, prop: str) -> None:
        self.prop = prop
        self.events: list[tuple] = []
        self.violations: list[Violation] = []
        self.counters: dict[str, int] = {}
        self.probes: dict[str, int] = {}
        self.faults: dict[str, list[int]] = {}  # kind -> [configured, fired]
        self.shape: list[str] = []
        self.sites: set[str] = set()
        self.caller = "-"
        self.sim_time_span_s = 0.0
        self._log_enabled = True

    # -- event log ---------------------------------------------------------
    def log(self, kind: str, *detail: Any) -> None:
        if self._log_enabled:
            self.events.append((len(self.events), self.caller, kind, *detail))

    def digest(self) -> str:
        return h64(jdump(self.events))

    # -- verdicts ----------------------------------------------------------
    def violate(self, clause: str, msg: str, **sig: Any) -> None:
        hint = sig.pop("_hint", None)
        v = Violation(clause=clause, msg=msg[:2000], sig=dict(sig))
        if hint is not None:
            v["hint"] = hint
        self.violations.append(v)
        self.log("VIOLATION", clause, jdump(sig))

    # -- measures of reach -------------------------------------------------
    def count(self, name: str, n: int = 1) -> None:
        self.counters[name] = self.counters.get(name, 0) + n

    def probe(self, name: str, n: int = 1) -> None:
        self.probes[name] = self.probes.get(name, 0) + n

    def fault_configured(self, kind: str, n: int = 1) -> None:
        self.faults.setdefault(kind, [0, 0])[0] += n

    def fault_fired(self, kind: str, n: int = 1) -> None:
        self.faults.setdefault(kind, [0, 0])[1] += n

    def site(self, name: str) -> None:
        self.sites.add(name)

    def step(self, token: str) -> None:
        """Append to the schedule shape (values abstracted away)."""
        self.shape.append(token)

    def result(self) -> dict:
        return {
            "violations": self.violations,
            "digest": self.digest(),
            "n_events": len(self.events),
            "counters": self.counters,
            "probes": self.probes,
            "faults": self.faults,
            "shape": h64("|".join(self.shape)),
            "shape_len": len(self.shape),
            "sites": sorted(self.sites),
            "sim_time_span_s": self.sim_time_span_s,
        }


class HarnessError(Exception):
    """A defect of the harness itself (never a violation, never a pass)."""


def scratch_root() -> str:
    for cand in ("/dev/shm", os.environ.get("TMPDIR") or "", "/tmp"):
        if cand and os.path.isdir(cand) and os.access(cand, os.W_OK):
            return cand
    raise HarnessError("no writable scratch root")


def sweep_stale_scratch() -> int:
    """Remove per-run scratch directories (dsim.<pid>, dsim-sens.<pid>) whose owning process no
    longer exists, e.g. after a check was killed.  Returns how many were removed."""
    import re
    import shutil

    root = scratch_root()
    n = 0
    for name in os.listdir(root):
        m = re.fullmatch(r"dsim(?:-sens)?\.(\d+)", name)
        if m and not os.path.exists(f"/proc/{m.group(1)}"):
            shutil.rmtree(os.path.join(root, name), ignore_errors=True)
            n += 1
    return n


def merge_counts(dst: dict[str, int], src: dict[str, int]) -> None:
    for k, v in src.items():
        dst[k] = dst.get(k, 0) + v


class ExcInfo:
    """What the harness keeps of an exception raised by the library: type and message
    only.  The traceback is dropped at once so that no reference cycle keeps the
    library's frames (and e.g. BytesIO objects with exported buffers) alive until an
    arbitrary later garbage collection."""

    __slots__ = ("name", "msg", "mro", "injected", "notes")

    def __init__(self, e: BaseException):
        self.name = type(e).__name__
        self.msg = str(e)[:500]
        self.mro = tuple(c.__name__ for c in type(e).__mro__)
        self.injected = "InjectedOSError" in self.mro
        self.notes = tuple(getattr(e, "__notes__", ()) or ())
        tb = e.__traceback__
        e.__traceback__ = None
        if e.__context__ is not None:
            e.__context__.__traceback__ = None
        if e.__cause__ is not None:
            e.__cause__.__traceback__ = None
        del tb

    def isa(self, name: str) -> bool:
        return name in self.mro

    def __repr__(self) -> str:
        return f"{self.name}: {self.msg}"


def capture(fn, *a, **kw):
    """Call fn; return (result, None) or (None, ExcInfo)."""
    try:
        return fn(*a, **kw), None
    except HarnessError:
        raise  # a defect of the harness is never attributed to the library
    except Exception as e:  # noqa: BLE001
        info = ExcInfo(e)
        del e
        return None, info


class time_limit:
    """SIGALRM-based guard around a library call that may spin on garbage input.  Only used
    where a violation has ALREADY been established or the input is known-bad; never part of a
    pass/fail decision on healthy runs."""

    def __init__(self, seconds: float):
        self.seconds = seconds

    def __enter__(self):
        import signal

        def _raise(signum, frame):
            raise TimeoutError(f"library call exceeded {self.seconds}s")

        self._old = signal.signal(signal.SIGALRM, _raise)
        signal.setitimer(signal.ITIMER_REAL, self.seconds)
        return self

    def __exit__(self, *exc):
        import signal

        signal.setitimer(signal.ITIMER_REAL, 0)
        signal.signal(signal.SIGALRM, self._old)
        return False


# --- process environment as a scenario knob ------------------------------------------
# The zygotes are started *without* UTF-8 mode (PYTHONUTF8=0, PYTHONCOERCECLOCALE=0) under
# LC_ALL=C.UTF-8, so the default text encoding of open() follows LC_CTYPE at the time of the
# call; a run whose scenario says {"locale": "C"} switches its own (forked) process to the
# POSIX locale, where open() without encoding= is strict ASCII: what the library meets on a
# legacy-locale deployment.
LOCALES = {"utf8": "C.UTF-8", "C": "C"}


def apply_process_env(scenario: dict, ctx) -> None:
    lvl = scenario.get("logging")
    if lvl:
        # the application has switched logging on (root logger with a handler that formats every
        # record): log statements inside the library are executed, not skipped
        import io
        import logging

        h = logging.StreamHandler(io.StringIO())
        h.setFormatter(logging.Formatter("%(asctime)s %(name)s %(levelname)s %(message)s"))
        root = logging.getLogger()
        root.addHandler(h)
        root.setLevel(lvl)
        logging.getLogger("scipp").setLevel(lvl)
        ctx.log("logging", lvl)
        ctx.probe("logging_" + lvl)
    loc = scenario.get("locale")
    if not loc:
        return
    import locale

    if sys.flags.utf8_mode:
        raise HarnessError("zygote runs in UTF-8 mode: the locale knob would have no effect")
    locale.setlocale(locale.LC_CTYPE, LOCALES[loc])
    ctx.log("locale", loc, locale.getencoding())
    ctx.probe("locale_" + loc)
