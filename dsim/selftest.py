"""Self-tests of the machinery: determinism (same seed => same event-log digest
across fresh interpreters, hash seeds and worker counts) and replay on the common
(passing) path.  Exit 0 = ok, 2 = harness defect.
"""

from __future__ import annotations

import os
import time

from . import core, driver


def _built(prop: str) -> bool:
    mod = {"C09": "c09", "C12": "sqw", "C13": "sqw", "C14": "cif", "C15": "xye",
           "C17": "fit", "C20": "atoms"}[prop]
    return os.path.exists(os.path.join(driver.VERIF_ROOT, "dsim", "engines", mod + ".py"))


def determinism(prop: str, n: int, vseed: int) -> int:
    t0 = time.monotonic()
    z = driver.Zygote(prop, cpu=0)
    try:
        idx = z.hello["meta"].get("selftest_indices", {}).get(str(n)) or list(range(n))
    finally:
        z.close()
    base, W = driver.run_batches(prop, "quick", vseed, n, {}, hashseed="0", indices=idx)
    a = driver.merge(base)
    # the configurations must not share a wall-clock second: anything stamped with the real
    # clock (e.g. a gzip header) would otherwise look deterministic
    time.sleep(1.2)
    other, _ = driver.run_batches(prop, "quick", vseed, n, {}, hashseed="424242", indices=idx)
    time.sleep(1.2)
    b = driver.merge(other)
    few = max(2, W // 5)
    single, _ = driver.run_batches(prop, "quick", vseed, n, {}, hashseed="0", workers=few, indices=idx)
    c = driver.merge(single)
    bad = 0
    for m, label in ((a, "base"), (b, "hashseed"), (c, "workers")):
        if m["harness_errors"]:
            print(f"selftest {prop}: HARNESS-ERROR in {label}: {m['harness_errors'][0]['error']}")
            bad += 1
    for k, d in a["digests"].items():
        if b["digests"].get(k) != d:
            print(f"selftest {prop}: run {k} digest differs under PYTHONHASHSEED=424242")
            bad += 1
        if c["digests"].get(k) != d:
            print(f"selftest {prop}: run {k} digest differs with {few} workers instead of {W}")
            bad += 1
    # replay on the passing path: regenerate scenario, execute it explicitly, compare
    z = driver.Zygote(prop, cpu=0)
    replayed = 0
    try:
        for i in idx[:: max(1, len(idx) // 10)][:10]:
            seed = core.run_seed(vseed, prop, "quick", i)
            sc = z.call({"cmd": "gen", "seed": seed, "tier": "quick", "i": i})["scenario"]
            res = z.call({"cmd": "exec", "scenario": sc, "timeout": z.hello["meta"]["timeout"]["quick"]})
            replayed += 1
            if res.get("digest") != a["digests"].get(str(i)):
                print(f"selftest {prop}: replay of run {i} from its scenario file gives digest "
                      f"{res.get('digest')} != {a['digests'].get(str(i))} "
                      f"{res.get('harness_error', '')}")
                bad += 1
    finally:
        z.close()
    print(f"selftest {prop}: {len(a['digests'])} seeds x 3 configurations "
          f"(hashseed 0/424242, {W}/{few} workers), {replayed} scenario replays, "
          f"mismatches={bad}, {time.monotonic() - t0:.1f}s")
    return bad


def main(argv: list[str]) -> int:
    mode = argv[0] if argv else "light"
    props = [p for p in driver.CLAIMED if _built(p)]
    if len(argv) > 1:
        props = [p for p in argv[1:] if p in props]
    n = 48 if mode == "light" else int(os.environ.get("DSIM_SELFTEST_N", "2000"))
    vseed = int(os.environ.get("VERIF_SEED", "0") or 0)
    from . import ref_selftest

    bad = ref_selftest.run()
    for p in props:
        # C17 runs are ~100x more expensive than the others: fewer seeds in light mode
        bad += determinism(p, (8 if p == "C17" and mode == "light" else n), vseed + 7919)
    if bad:
        print(f"selftest: {bad} problems")
        return 2
    print("selftest: ok")
    return 0
