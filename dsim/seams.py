"""Seams: every source of nondeterminism / every fallible dependency the claimed
properties touch goes through one of these.  All are installed by attribute
replacement from outside the library (no hook in /repo is needed).
"""

from __future__ import annotations

import errno as _errno
import io
import os
import sys
from typing import Any, Callable


# ---------------------------------------------------------------------------
# Pre-emption: deterministic interleaving at Python line granularity


class Preemptor:
    """Runs ``fn`` under ``sys.settrace``; at the scheduled *line-event ordinals*
    inside frames whose code lives under ``prefixes`` it calls the scheduled
    callback (with tracing off, so a nested operation of another simulated caller
    runs at full speed).  The ordinals come from the scenario, never from a clock.
    """

    def __init__(self, prefixes: tuple[str, ...], points: dict[int, Callable[[Any], None]],
                 every: Callable[[Any], None] | None = None, max_events: int = 2_000_000):
        self.prefixes = prefixes
        self.points = points
        self.every = every
        self.ordinal = 0
        self.taken: list[int] = []
        self.max_events = max_events
        self.sites: list[str] = []

    def run(self, fn: Callable[[], Any]) -> Any:
        self.ordinal = 0
        old = sys.gettrace()
        sys.settrace(self._global)
        try:
            return fn()
        finally:
            sys.settrace(old)

    def _global(self, frame, event, arg):
        if frame.f_code.co_filename.startswith(self.prefixes):
            return self._local
        return None

    def _local(self, frame, event, arg):
        if event == "line":
            k = self.ordinal
            self.ordinal = k + 1
            if k > self.max_events:
                sys.settrace(None)
                return None
            cb = self.points.get(k)
            if cb is not None:
                sys.settrace(None)
                try:
                    self.taken.append(k)
                    self.sites.append(
                        f"{os.path.basename(frame.f_code.co_filename)}:{frame.f_code.co_name}"
                    )
                    cb(frame)
                finally:
                    sys.settrace(self._global)
        return self._local


# ---------------------------------------------------------------------------
# Bundled-table opener (atoms)


class InjectedOSError(OSError):
    """Marker subclass so the harness can tell its own faults from real ones."""


class BundledFileProxy:
    def __init__(self, real_open: Callable[[str], Any]):
        self.real_open = real_open
        self.ctx = None
        self.plan: dict | None = None
        self.reset()

    def reset(self) -> None:
        self.opens = 0
        self.closes = 0
        self.lines = 0
        self.op_opens = 0
        self.fired = 0

    def arm(self, plan: dict | None) -> None:
        self.plan = plan
        self.op_opens = 0
        self.fired = 0

    def __call__(self, name: str):
        k = self.op_opens
        self.op_opens += 1
        self.opens += 1
        if self.ctx is not None:
            self.ctx.log("open", name, k)
        p = self.plan
        if p and p["at"] == "open" and p.get("open_ordinal", 0) == k:
            self.fired += 1
            if self.ctx is not None:
                self.ctx.log("fault", "open", name, p["errno"])
            raise InjectedOSError(p["errno"], os.strerror(p["errno"]), name)
        f = self.real_open(name)
        return _TableFile(f, self, name, k)


class _TableFile:
    def __init__(self, f, proxy: BundledFileProxy, name: str, ordinal: int):
        self._f = f
        self._p = proxy
        self._name = name
        self._k = ordinal
        self._n = 0

    def readline(self, *a):
        p = self._p.plan
        n = self._n
        self._n += 1
        self._p.lines += 1
        if p and p["at"] == "readline" and p.get("open_ordinal", 0) == self._k and p["line"] == n:
            self._p.fired += 1
            if self._p.ctx is not None:
                self._p.ctx.log("fault", "readline", self._name, n, p["errno"])
            raise InjectedOSError(p["errno"], os.strerror(p["errno"]), self._name)
        return self._f.readline(*a)

    def __enter__(self):
        self._f.__enter__()
        return self

    def __exit__(self, *exc):
        self._p.closes += 1
        return self._f.__exit__(*exc)

    def close(self):
        self._p.closes += 1
        return self._f.close()

    def __iter__(self):
        return self

    def __next__(self):
        line = self.readline()
        if not line:
            raise StopIteration
        return line

    def __getattr__(self, item):
        return getattr(self._f, item)


ERRNOS = {
    "EMFILE": _errno.EMFILE,
    "EIO": _errno.EIO,
    "ENOENT": _errno.ENOENT,
    "EACCES": _errno.EACCES,
    "ENOSPC": _errno.ENOSPC,
    "EFBIG": _errno.EFBIG,
    "EDQUOT": _errno.EDQUOT,
}
