"""Seams: every source of nondeterminism / every fallible dependency the claimed
properties touch goes through one of these.  All are installed by attribute
replacement from outside the library (no hook in /repo is needed).
"""

from __future__ import annotations

import errno as _errno
import io
import os
import sys
from typing import Any, Callable


# ---------------------------------------------------------------------------
# Pre-emption: deterministic interleaving at Python line granularity


class Preemptor:
    """Runs ``fn`` under ``sys.settrace``; at the scheduled *line-event ordinals*
    inside frames whose code lives under ``prefixes`` it calls the scheduled
    callback (with tracing off, so a nested operation of another simulated caller
    runs at full speed).  The ordinals come from the scenario, never from a clock.
    """

    def __init__(self, prefixes: tuple[str, ...], points: dict[int, Callable[[Any], None]],
                 every: Callable[[Any], None] | None = None, max_events: int = 2_000_000,
                 site_points: dict[int, Callable[[Any], None]] | None = None):
        self.prefixes = prefixes
        self.points = points
        self.every = every
        self.ordinal = 0
        self.taken: list[int] = []
        self.max_events = max_events
        self.sites: list[str] = []
        # distinct source lines in order of first execution; ``site_points`` schedules a
        # callback at the first execution of the j-th distinct line (a far smaller space than
        # line-event ordinals: loops revisit the same lines)
        self.site_points = site_points or {}
        self.site_order: list[tuple[str, int, str]] = []
        self._site_seen: set[tuple[str, int]] = set()
        # ordinals of the first ``early_k`` executions of every distinct line (counting passes)
        self.once = False
        self._with_entered: set = set()
        self.early_k = 0
        self.early: list[int] = []
        self._site_count: dict[tuple[str, int], int] = {}

    def run(self, fn: Callable[[], Any]) -> Any:
        self.ordinal = 0
        self.site_order = []
        self._site_seen = set()
        self.early = []
        self._site_count = {}
        self._with_entered = set()
        old = sys.gettrace()
        sys.settrace(self._global)
        try:
            return fn()
        finally:
            sys.settrace(old)

    def _global(self, frame, event, arg):
        # module bodies are never pre-empted: with real threads the import lock serialises them
        if frame.f_code.co_filename.startswith(self.prefixes) and frame.f_code.co_name != "<module>":
            return self._local
        return None

    _WITH_LINES: dict = {}

    def _track_with(self, frame) -> bool:
        """True if this line event is the second visit of a ``with`` line in this frame, i.e. the
        normal exit of the block, just before ``__exit__`` is called."""
        fk = (frame.f_code.co_filename, frame.f_lineno)
        is_with = Preemptor._WITH_LINES.get(fk)
        if is_with is None:
            import linecache

            src = linecache.getline(fk[0], fk[1]).lstrip()
            is_with = Preemptor._WITH_LINES[fk] = src.startswith(("with ", "async with "))
        if not is_with:
            return False
        key = (id(frame), frame.f_lineno)
        if key in self._with_entered:
            self._with_entered.discard(key)
            return True
        self._with_entered.add(key)
        return False

    def _local(self, frame, event, arg):
        if event == "line":
            k = self.ordinal
            self.ordinal = k + 1
            if k > self.max_events:
                sys.settrace(None)
                return None
            cb = self.points.get(k)
            with_exit = self._track_with(frame)
            if cb is interrupt_now and with_exit:
                # between the end of a with-body and the call of __exit__ the interpreter itself is
                # at work: an exception raised there bypasses the context manager (a known CPython
                # window for signals).  The simulator does not interrupt inside the interpreter's own
                # context-manager protocol; the point simply does not fire.
                cb = None
            key = (frame.f_code.co_filename, frame.f_lineno)
            if self.early_k:
                c = self._site_count.get(key, 0)
                if c < self.early_k:
                    self._site_count[key] = c + 1
                    self.early.append(k)
            if key not in self._site_seen:
                self._site_seen.add(key)
                j = len(self.site_order)
                self.site_order.append((os.path.basename(key[0]), key[1], frame.f_code.co_name))
                if cb is None:
                    cb = self.site_points.get(j)
            if cb is not None:
                sys.settrace(None)
                try:
                    self.taken.append(k)
                    self.sites.append(
                        f"{os.path.basename(frame.f_code.co_filename)}:{frame.f_code.co_name}"
                    )
                    cb(frame)
                finally:
                    done = self.once and len(self.taken) >= len(self.points) + len(self.site_points)
                    if not done:
                        sys.settrace(self._global)
                if done:
                    # every scheduled point has fired: the rest of the call runs untraced
                    return None
        return self._local


# ---------------------------------------------------------------------------
# Bundled-table opener (atoms)


class InjectedOSError(OSError):
    """Marker subclass so the harness can tell its own faults from real ones."""


class InjectedValueError(ValueError):
    """What writing to a closed file raises (not an OSError)."""


class InjectedMemoryError(MemoryError):
    """An allocation failing inside the target's write()."""


WRITE_ERRORS = ["ENOSPC", "ENOSPC", "EIO", "EDQUOT", "ValueError", "MemoryError"]


class BundledFileProxy:
    def __init__(self, real_open: Callable[[str], Any]):
        self.real_open = real_open
        self.ctx = None
        self.plan: dict | None = None
        self.reset()

    def reset(self) -> None:
        self.opens = 0
        self.closes = 0
        self.lines = 0
        self.op_opens = 0
        self.fired = 0

    def arm(self, plan: dict | None) -> None:
        self.plan = plan
        self.op_opens = 0
        self.fired = 0

    def __call__(self, name: str):
        k = self.op_opens
        self.op_opens += 1
        if self.ctx is not None:
            self.ctx.log("open", name, k)
        p = self.plan
        if p and p["at"] == "open" and p.get("open_ordinal", 0) == k:
            self.fired += 1
            if self.ctx is not None:
                self.ctx.log("fault", "open", name, p["errno"])
            raise InjectedOSError(p["errno"], os.strerror(p["errno"]), name)
        f = self.real_open(name)
        self.opens += 1  # handles actually handed out (closes are counted in __exit__)
        return _TableFile(f, self, name, k)


class _TableFile:
    def __init__(self, f, proxy: BundledFileProxy, name: str, ordinal: int):
        self._f = f
        self._p = proxy
        self._name = name
        self._k = ordinal
        self._n = 0

    def readline(self, *a):
        p = self._p.plan
        n = self._n
        self._n += 1
        self._p.lines += 1
        if p and p["at"] == "readline" and p.get("open_ordinal", 0) == self._k and p["line"] == n:
            self._p.fired += 1
            if self._p.ctx is not None:
                self._p.ctx.log("fault", "readline", self._name, n, p["errno"])
            raise InjectedOSError(p["errno"], os.strerror(p["errno"]), self._name)
        return self._f.readline(*a)

    def __enter__(self):
        self._f.__enter__()
        return self

    def __exit__(self, *exc):
        self._p.closes += 1
        return self._f.__exit__(*exc)

    def close(self):
        self._p.closes += 1
        return self._f.close()

    def __iter__(self):
        return self

    def __next__(self):
        line = self.readline()
        if not line:
            raise StopIteration
        return line

    def __getattr__(self, item):
        return getattr(self._f, item)


ERRNOS = {
    "EMFILE": _errno.EMFILE,
    "EIO": _errno.EIO,
    "ENOENT": _errno.ENOENT,
    "EACCES": _errno.EACCES,
    "ENOSPC": _errno.ENOSPC,
    "EFBIG": _errno.EFBIG,
    "EDQUOT": _errno.EDQUOT,
}


# ---------------------------------------------------------------------------
# Storage: in-memory sinks that record every operation and can fail on schedule


class _SinkMixin:
    def _sim_init(self, ctx=None, fail_at: int | None = None, partial: float = 0.0,
                  err: str = "ENOSPC", label: str = "sink", yield_at: dict | None = None):
        # write ordinal -> callback: the writer "blocks" in that write and the scheduler runs
        # another simulated caller before the write proceeds (I/O is where threads switch)
        self.sim_yield_at = dict(yield_at or {})
        self.sim_ctx = ctx
        self.sim_trace: list[tuple[int, int]] = []  # (position, nbytes) of each good write
        self.sim_writes = 0
        self.sim_fail_at = fail_at
        self.sim_partial = partial
        # what a failing write raises: an OSError with this errno, or one of the other things a
        # file-like target can raise (closed file, allocation failure)
        self.sim_err_kind = err
        self.sim_err = ERRNOS.get(err, _errno.EIO)
        self.sim_fired = 0
        self.sim_label = label
        self.sim_seeks = 0

    def _sim_write(self, data, length: int, do_write, do_prefix):
        k = self.sim_writes
        self.sim_writes = k + 1
        if self.sim_yield_at:
            cb = self.sim_yield_at.pop(k, None)
            if cb is not None:
                cb(k)
        if self.sim_fail_at is not None and k >= self.sim_fail_at:
            # the medium stays full: this and every later write fails
            if k == self.sim_fail_at and self.sim_partial > 0 and length > 1:
                n = max(1, min(length - 1, int(length * self.sim_partial)))
                pos = self.tell()
                do_prefix(n)
                self.sim_trace.append((pos, n))
            self.sim_fired += 1
            if self.sim_ctx is not None and self.sim_fired == 1:
                self.sim_ctx.log("fault", self.sim_label, "write", k)
            if self.sim_err_kind == "ValueError":
                raise InjectedValueError("I/O operation on closed file.")
            if self.sim_err_kind == "MemoryError":
                raise InjectedMemoryError()
            raise InjectedOSError(self.sim_err, os.strerror(self.sim_err))
        pos = self.tell()
        n = do_write()
        self.sim_trace.append((pos, length))
        return n


class SimBytesIO(io.BytesIO, _SinkMixin):
    """A BytesIO (so the library accepts it as an in-memory file) that records the
    write trace and fails at a scheduled write ordinal."""

    def __init__(self, initial: bytes = b"", **kw):
        io.BytesIO.__init__(self, initial)
        self._sim_init(**kw)

    def write(self, b):
        mv = memoryview(b)
        length = mv.nbytes
        return self._sim_write(
            b, length,
            lambda: io.BytesIO.write(self, b),
            lambda n: io.BytesIO.write(self, mv.cast("B")[:n]),
        )

    def seek(self, *a):
        self.sim_seeks += 1
        return io.BytesIO.seek(self, *a)


class SimStringIO(io.StringIO, _SinkMixin):
    def __init__(self, initial: str = "", **kw):
        io.StringIO.__init__(self, initial)
        self._sim_init(**kw)

    def write(self, s):
        return self._sim_write(
            s, len(s),
            lambda: io.StringIO.write(self, s),
            lambda n: io.StringIO.write(self, s[:n]),
        )


class FsizeLimit:
    """'Disk full at byte k' for real files: RLIMIT_FSIZE with SIGXFSZ ignored makes the
    k-th byte the last that fits; every later write fails with EFBIG.  This is the only
    injected fault that also reaches C stdio / numpy ``tofile``."""

    def __init__(self, limit: int):
        self.limit = limit

    def __enter__(self):
        import resource
        import signal

        signal.signal(signal.SIGXFSZ, signal.SIG_IGN)
        self._old = resource.getrlimit(resource.RLIMIT_FSIZE)
        resource.setrlimit(resource.RLIMIT_FSIZE, (self.limit, self._old[1]))
        return self

    def __exit__(self, *exc):
        import resource

        resource.setrlimit(resource.RLIMIT_FSIZE, self._old)
        return False


# ---------------------------------------------------------------------------
# Clock

import datetime as _dt  # noqa: E402

_RealDatetime = _dt.datetime


class SimClock:
    """Scripted clock: starts at a scenario-chosen instant and advances by the scripted
    delta at each read (negative deltas = jumps backwards)."""

    def __init__(self):
        self.set({"start": "2024-01-01T00:00:00+00:00", "deltas": [1.0]})
        self.ctx = None

    def set(self, script: dict):
        self.t = _RealDatetime.fromisoformat(script["start"])
        if self.t.tzinfo is None:
            self.t = self.t.replace(tzinfo=_dt.timezone.utc)
        self.deltas = list(script.get("deltas") or [0.0])
        self.reads = 0
        self.t0 = self.t
        self.tmin = self.tmax = self.t

    def read(self) -> _RealDatetime:
        now = self.t
        d = self.deltas[self.reads % len(self.deltas)]
        self.reads += 1
        try:
            self.t = self.t + _dt.timedelta(seconds=d)
        except OverflowError:
            pass
        self.tmin = min(self.tmin, self.t)
        self.tmax = max(self.tmax, self.t)
        if self.ctx is not None:
            self.ctx.log("clock", now.isoformat())
        return now

    def span_s(self) -> float:
        return (self.tmax - self.tmin).total_seconds()


CLOCK = SimClock()


class _SimDatetimeMeta(type(_RealDatetime)):
    def __instancecheck__(cls, inst):
        return isinstance(inst, _RealDatetime)


class SimDatetime(_RealDatetime, metaclass=_SimDatetimeMeta):
    """Drop-in for the ``datetime`` name imported by a library module."""

    @classmethod
    def now(cls, tz=None):
        t = CLOCK.read()
        if tz is None:
            return t.replace(tzinfo=None)
        if tz is _dt.timezone.utc:
            return t
        return t.astimezone(tz)

    @classmethod
    def utcnow(cls):
        return CLOCK.read().replace(tzinfo=None)


def install_clock(*modules) -> None:
    for m in modules:
        if getattr(m, "datetime", None) is _RealDatetime:
            m.datetime = SimDatetime


class SimTimeModule:
    """Stand-in for the ``time`` module as seen by one dependency (``gzip`` stamps its header
    with ``time.time()``): a scripted epoch that advances by one second per read.  Everything
    else is forwarded to the real module."""

    def __init__(self, start: float = 1_700_000_000.0):
        self.start = start
        self.reads = 0
        self.ctx = None

    def reset(self, start: float | None = None):
        if start is not None:
            self.start = start
        self.reads = 0

    def time(self) -> float:
        t = self.start + self.reads
        self.reads += 1
        if self.ctx is not None:
            self.ctx.log("clock", "epoch", t)
        return t

    def __getattr__(self, name):
        import time as _time

        return getattr(_time, name)


GZIP_TIME = SimTimeModule()


def install_gzip_clock() -> None:
    import gzip

    gzip.time = GZIP_TIME


class SimInterrupt(KeyboardInterrupt):
    """Asynchronous cancellation of the caller (Ctrl-C in a notebook, a task being cancelled):
    raised by the scheduler at a scenario-chosen line boundary or inside a write().  Derives from
    KeyboardInterrupt so that `except Exception` in the code under test does not swallow it."""


def interrupt_now(_frame_or_k=None):
    raise SimInterrupt("simulated interruption")
