"""dsim — deterministic simulation with fault injection for scippneutron.

See /verif/DESIGN.md.  Nothing in this package is imported by the library; the
library is driven from here through its public API and a handful of module
attributes that serve as seams (dsim.seams).
"""
