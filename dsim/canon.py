"""Canonical, hash-seed independent serialisation of whatever the library hands out,
down to the exact bits of every float.  Used for argument snapshots, result
comparison and event-log digests (C09 mainly).
"""

from __future__ import annotations

import dataclasses
import datetime
import enum
import functools
import hashlib

import numpy as np

from . import core


class Uncanonical(core.HarnessError):
    pass


def _h(b: bytes) -> str:
    return hashlib.blake2b(b, digest_size=8).hexdigest()


def _arr(a: np.ndarray):
    a = np.asarray(a)
    if a.dtype.kind in "OUS":
        return ["strs", list(a.shape), [str(x) for x in a.ravel().tolist()]]
    c = np.ascontiguousarray(a)
    if c.dtype.kind == "f":
        # normalise NaN payloads
        c = c.copy()
        c[np.isnan(c)] = np.nan
    return [str(c.dtype), list(c.shape), _h(c.tobytes()) if c.size > 8 else c.tobytes().hex()]


def canon(obj, depth: int = 0):
    import scipp as sc

    if depth > 12:
        raise Uncanonical("nesting too deep")
    if obj is None or isinstance(obj, bool | int | str):
        return obj
    if isinstance(obj, float):
        return ["f", core.fbits(obj)]
    if isinstance(obj, np.generic):
        return canon(obj.item(), depth + 1) if not isinstance(obj, np.floating) else ["f", core.fbits(float(obj))]
    if isinstance(obj, datetime.datetime | datetime.date):
        return ["datetime", obj.isoformat()]
    if isinstance(obj, enum.Enum):
        return ["enum", type(obj).__name__, obj.name]
    if isinstance(obj, np.ndarray):
        return ["nd", _arr(obj)]
    if isinstance(obj, sc.Variable):
        if obj.bins is not None:
            c = obj.bins.constituents
            return ["binned", list(obj.dims), list(obj.shape), canon(c["begin"], depth + 1),
                    canon(c["end"], depth + 1), c["dim"], canon(c["data"], depth + 1)]
        if obj.ndim > 1 and list(obj.dims) != sorted(obj.dims):
            # dimension order is layout, not content (and in places depends on set iteration
            # order inside the library, i.e. on PYTHONHASHSEED): compare in sorted-dims layout
            obj = obj.transpose(sorted(obj.dims)).copy()
        out = ["var", list(obj.dims), list(obj.shape), str(obj.dtype),
               None if obj.unit is None else repr(obj.unit)]
        try:
            out.append(_arr(obj.values))
        except Exception:  # noqa: BLE001  (e.g. dtype without numpy representation)
            out.append(["repr", str(obj)])
        out.append(None if obj.variances is None else _arr(obj.variances))
        return out
    if isinstance(obj, sc.DataArray):
        return ["da", obj.name, canon(obj.data, depth + 1),
                {k: canon(v, depth + 1) for k, v in sorted(obj.coords.items(), key=lambda kv: str(kv[0]))},
                {k: canon(v, depth + 1) for k, v in sorted(obj.masks.items(), key=lambda kv: str(kv[0]))}]
    if isinstance(obj, sc.Dataset | sc.DataGroup):
        return [type(obj).__name__, {str(k): canon(v, depth + 1) for k, v in sorted(obj.items(), key=lambda kv: str(kv[0]))}]
    if isinstance(obj, dict):
        items = [(canon_key(k), canon(v, depth + 1)) for k, v in obj.items()]
        return ["dict", sorted(items, key=lambda kv: core.jdump(kv[0]))]
    if isinstance(obj, list | tuple):
        return [type(obj).__name__, [canon(x, depth + 1) for x in obj]]
    if isinstance(obj, set | frozenset):
        return ["set", sorted((canon(x, depth + 1) for x in obj), key=core.jdump)]
    if isinstance(obj, functools.partial):
        return ["partial", canon(obj.func, depth + 1), canon(obj.args, depth + 1), canon(obj.keywords, depth + 1)]
    if callable(obj) and hasattr(obj, "__qualname__"):
        return ["fn", getattr(obj, "__module__", "?"), obj.__qualname__]
    if dataclasses.is_dataclass(obj) and not isinstance(obj, type):
        return ["dc", type(obj).__name__,
                {f.name: canon(getattr(obj, f.name), depth + 1) for f in dataclasses.fields(obj)}]
    d = getattr(obj, "__dict__", None)
    if d is not None:
        return ["obj", type(obj).__name__, {k: canon(v, depth + 1) for k, v in sorted(d.items())
                                            if not k.startswith("_id_generator")}]
    slots = getattr(type(obj), "__slots__", None)
    if slots:
        return ["obj", type(obj).__name__, {k: canon(getattr(obj, k), depth + 1) for k in slots if hasattr(obj, k)}]
    if hasattr(obj, "__next__"):
        return ["iterator", type(obj).__name__]
    raise Uncanonical(f"cannot canonicalise {type(obj)!r}")


def canon_key(k):
    if isinstance(k, str | int | bool) or k is None:
        return k
    if isinstance(k, tuple):
        return ["t", [canon_key(x) for x in k]]
    return ["k", repr(k)]


def digest(obj) -> str:
    return core.h64(core.jdump(canon(obj)))
