"""Writes /verif/evidence/<id>.json from what a run actually measured."""

from __future__ import annotations

import json
import os

VERIF_ROOT = os.path.dirname(os.path.dirname(os.path.abspath(__file__)))


def write(prop, tier, vseed, meta, mg, det, workers, wall, *, n_violation_classes,
          known, replays, planned) -> str:
    runs = mg["runs"]
    faults = {
        k: {"configured": c, "fired": f} for k, (c, f) in sorted(mg["faults"].items())
    }
    cov = {
        "evaluations": runs,
        "distinct_nontrivial": len(mg["nontrivial"]),
        "rule": meta["rule"],
        "samples": mg["samples"][:3] or [{"note": "no sample recorded"}],
        "exhaustive": False,
        "planned_runs": planned,
        "distinct_scenarios": len(mg["scen"]),
        "distinct_schedule_shapes": len(mg["shapes"]),
        "distinct_fault_sites_hit": len(mg["sites"]),
        "fault_sites_hit": sorted(mg["sites"])[:200],
        "events_logged": mg["n_events"],
        "fault_kinds": faults,
        "fault_kinds_not_applicable_to_this_codebase": meta["fault_kinds_not_applicable"],
        "counters": dict(sorted(mg["counters"].items())),
        "probes": dict(sorted(mg["probes"].items())),
        "runs_per_hour": round(runs / wall * 3600) if wall > 0 else 0,
        "seeds_per_hour": round(runs / wall * 3600) if wall > 0 else 0,
        "simulated_time_span_s": mg["sim_time_span_s"],
        "simulated_time_note": "span of the scripted clock over all runs; no property "
        "depends on durations (the library has no timers)",
        "workers": workers,
        "scipp_threads_per_zygote": sorted(mg["threads"]),
        "worker_wall_s": mg["worker_wall_s"],
        "determinism_recheck": {
            "seeds_reexecuted_under_other_PYTHONHASHSEED": det["rechecked"],
            "digest_mismatches": det["mismatches"],
        },
        "components_real": meta["components_real"],
        "components_stubbed": meta["components_stubbed"],
        "violation_classes": n_violation_classes,
        "runs_with_violation": mg["n_failures"],
        "known_findings_observed": known,
        "replays_written": replays,
        "stopped_at_deadline": bool(mg.get("stopped_at_deadline")),
        "harness_errors": len(mg["harness_errors"]),
        "engine_extra": meta.get("extra", {}),
    }
    ev = {
        "property_id": prop,
        "tier": tier,
        "seed": vseed,
        "level": meta["level"],
        "coverage": cov,
        "assumptions": meta["assumptions"],
        "wall_s": round(wall, 2),
        "violations": n_violation_classes,
    }
    d = os.environ.get("DSIM_EVIDENCE_DIR") or os.path.join(VERIF_ROOT, "evidence")
    os.makedirs(d, exist_ok=True)
    path = os.path.join(d, f"{prop}.json")
    tmp = path + ".tmp"
    with open(tmp, "w") as f:
        json.dump(ev, f, indent=1, sort_keys=True)
        f.write("\n")
    os.replace(tmp, path)
    return path
