"""Independent decoder of the SQW container (reference model for C12/C13).

Written from the layout documented in DESIGN.md Appendix B (Horace file-format note +
the builder's source comments).  Uses only ``struct`` and ``numpy.frombuffer``; imports
nothing from scippneutron.  Every decode function returns ``(value, new_offset)`` so
that "decodes completely within its extent" can be checked exactly.
"""

from __future__ import annotations

import struct

import numpy as np


class DecodeError(Exception):
    pass


class R:
    """Cursor over a bytes object with a fixed byte order and a hard end."""

    def __init__(self, buf: bytes, bo: str, pos: int = 0, end: int | None = None):
        self.buf = buf
        self.bo = bo  # '<' or '>'
        self.pos = pos
        self.end = len(buf) if end is None else end

    def take(self, n: int) -> bytes:
        if n < 0 or self.pos + n > self.end:
            raise DecodeError(
                f"need {n} bytes at offset {self.pos} but extent ends at {self.end}"
            )
        b = self.buf[self.pos : self.pos + n]
        self.pos += n
        return b

    def u8(self) -> int:
        return self.take(1)[0]

    def u32(self) -> int:
        return struct.unpack(self.bo + "I", self.take(4))[0]

    def u64(self) -> int:
        return struct.unpack(self.bo + "Q", self.take(8))[0]

    def f64(self) -> float:
        return struct.unpack(self.bo + "d", self.take(8))[0]

    def chars(self, n: int) -> str:
        b = self.take(n)
        try:
            return b.decode("utf-8")
        except UnicodeDecodeError as e:
            raise DecodeError(f"invalid utf-8 in char data at {self.pos - n}: {e}") from None

    def string(self) -> str:
        return self.chars(self.u32())

    def array(self, dtype: str, count: int) -> np.ndarray:
        dt = np.dtype(dtype).newbyteorder(self.bo)
        raw = self.take(count * dt.itemsize)
        return np.frombuffer(raw, dtype=dt, count=count).astype(np.dtype(dtype))


def detect_byteorder(buf: bytes) -> str | None:
    if len(buf) < 4:
        return None
    le = struct.unpack("<I", buf[:4])[0]
    be = struct.unpack(">I", buf[:4])[0]
    if le == 6:
        return "<"
    if be == 6:
        return ">"
    return None


def decode_header(r: R) -> dict:
    n = r.u32()
    name = r.chars(n)
    ver = r.f64()
    sqw_type = r.u32()
    n_dims = r.u32()
    return {"prog_name": name, "prog_version": ver, "sqw_type": sqw_type, "n_dims": n_dims}


def decode_bat(r: R) -> dict:
    bat_bytes = r.u32()
    start = r.pos
    n = r.u32()
    if n > 10_000:
        raise DecodeError(f"implausible block count {n}")
    descs = []
    for _ in range(n):
        ty = r.string()
        n1 = r.string()
        n2 = r.string()
        pos_field_offset = r.pos
        pos = r.u64()
        size = r.u32()
        locked = r.u32()
        descs.append({"type": ty, "name": (n1, n2), "position": pos, "size": size,
                      "locked": locked, "pos_field_offset": pos_field_offset})
    return {"bat_bytes": bat_bytes, "measured_bytes": r.pos - start, "descriptors": descs,
            "end": r.pos}


# --- self-describing objects ---------------------------------------------------

T_LOGICAL, T_CHAR, T_F64, T_CELL, T_STRUCT, T_SELF = 0, 1, 3, 23, 24, 32


def _vol(dims) -> int:
    v = 1
    for d in dims:
        v *= d
    return v


def decode_objarr(r: R, depth: int = 0) -> dict:
    if depth > 40:
        raise DecodeError("nesting too deep")
    at = r.pos
    tag = r.u8()
    selfser = False
    if tag == T_SELF:
        selfser = True
        tag = r.u8()
    rank = r.u8()
    dims = tuple(r.u32() for _ in range(rank))
    out = {"tag": tag, "dims": dims, "self": selfser, "at": at}
    # a corrupt shape must not make the decoder loop over billions of (possibly empty) elements
    remaining = r.end - r.pos
    n_elem = _vol(dims) if rank else 0
    if tag == T_CHAR and rank and (_vol(dims[1:]) > max(1, remaining) + 1 or dims[0] * _vol(dims[1:]) > remaining):
        raise DecodeError(f"char array at {at} with dims {dims} cannot fit in the {remaining} bytes of its extent")
    if tag in (T_LOGICAL, T_CELL, T_STRUCT) and n_elem > remaining + 1:
        raise DecodeError(f"array at {at} (tag {tag}) with dims {dims} cannot fit in the {remaining} bytes of its extent")
    if tag == T_F64 and n_elem * 8 > remaining:
        raise DecodeError(f"f64 array at {at} with dims {dims} cannot fit in the {remaining} bytes of its extent")
    if tag == T_CHAR:
        if rank == 0:
            out["data"] = [""]
        else:
            out["data"] = [r.chars(dims[0]) for _ in range(_vol(dims[1:]))]
    elif tag == T_F64:
        out["data"] = r.array("float64", _vol(dims)) if rank else np.zeros(0)
    elif tag == T_LOGICAL:
        out["data"] = [b != 0 for b in r.take(_vol(dims))] if rank else []
    elif tag == T_CELL:
        out["data"] = [decode_objarr(r, depth + 1) for _ in range(_vol(dims) if rank else 0)]
    elif tag == T_STRUCT:
        if rank == 0 or _vol(dims) == 0:
            out["data"] = []
        else:
            nf = r.u32()
            if nf > 10_000:
                raise DecodeError(f"implausible field count {nf}")
            lens = [r.u32() for _ in range(nf)]
            names = [r.chars(n) for n in lens]
            cell = decode_objarr(r, depth + 1)
            if cell["tag"] != T_CELL:
                raise DecodeError(f"struct at {at}: field values are tag {cell['tag']}, not a cell")
            ns = _vol(dims)
            want = (nf, 1) if ns == 1 else (nf, 1, ns)
            if tuple(cell["dims"]) != want and not (ns == 1 and tuple(cell["dims"]) == (nf, 1, 1)):
                raise DecodeError(
                    f"struct at {at}: cell dims {cell['dims']} but {nf} fields x {ns} structs"
                )
            vals = cell["data"]
            out["fields"] = names
            out["data"] = [dict(zip(names, vals[i * nf : (i + 1) * nf], strict=True))
                           for i in range(ns)]
            out["dup_fields"] = len(set(names)) != len(names)
    else:
        raise DecodeError(f"unsupported type tag {tag} at offset {at}")
    return out


def decode_pix(r: R) -> dict:
    n_rows = r.u32()
    n_pix = r.u64()
    if n_rows * n_pix * 4 > r.end - r.pos:
        raise DecodeError(
            f"pix block declares {n_rows} rows x {n_pix} pixels = {n_rows * n_pix * 4} bytes "
            f"but only {r.end - r.pos} remain in its extent"
        )
    data = r.array("float32", n_rows * n_pix).reshape(n_pix, n_rows)
    return {"n_rows": n_rows, "n_pix": n_pix, "data": data}


def decode_dnd(r: R) -> dict:
    rank = r.u32()
    if rank > 16:
        raise DecodeError(f"implausible dnd rank {rank}")
    dims = tuple(r.u32() for _ in range(rank))
    n = _vol(dims)
    if n * 24 > r.end - r.pos:
        raise DecodeError(f"dnd block of dims {dims} needs {n * 24} bytes, extent has {r.end - r.pos}")
    s = r.array("float64", n)
    e = r.array("float64", n)
    c = r.array("uint64", n)
    return {"dims": dims, "s": s, "e": e, "npix": c}


def decode_file(buf: bytes) -> dict:
    """Decode a whole file.  Structural problems are *collected* (list of
    (clause, message)) rather than raised, so the oracle can report all of them."""
    problems: list[tuple[str, str]] = []
    out: dict = {"problems": problems, "blocks": {}, "len": len(buf)}
    bo = detect_byteorder(buf)
    out["byteorder"] = bo
    if bo is None:
        problems.append(("header", "first u32 is not 6 in either byte order"))
        return out
    r = R(buf, bo)
    try:
        out["header"] = decode_header(r)
        out["header_end"] = r.pos
        bat = decode_bat(r)
    except (DecodeError, struct.error) as e:
        problems.append(("header", f"cannot decode header/BAT: {e}"))
        return out
    out["bat"] = bat
    if bat["bat_bytes"] != bat["measured_bytes"]:
        problems.append(("bat_size", f"BAT size field {bat['bat_bytes']} != bytes occupied "
                                     f"{bat['measured_bytes']}"))
    names = [d["name"] for d in bat["descriptors"]]
    if len(set(names)) != len(names):
        problems.append(("bat_unique", f"BAT lists a block more than once: {names}"))
    expect_pos = bat["end"]
    for d in bat["descriptors"]:
        if d["position"] != expect_pos:
            problems.append((
                "extents",
                f"block {d['name']} starts at {d['position']} but previous extent / table ends "
                f"at {expect_pos}",
            ))
        expect_pos = d["position"] + d["size"]
    if bat["descriptors"] and expect_pos != len(buf):
        problems.append(("eof", f"last extent ends at {expect_pos} but file has {len(buf)} bytes"))
    if not bat["descriptors"] and bat["end"] != len(buf):
        problems.append(("eof", f"no blocks but {len(buf) - bat['end']} bytes after the table"))
    for d in bat["descriptors"]:
        lo, hi = d["position"], d["position"] + d["size"]
        if hi > len(buf) or lo > len(buf):
            problems.append(("decode", f"block {d['name']} extent [{lo},{hi}) exceeds file length "
                                       f"{len(buf)}"))
            continue
        rr = R(buf, bo, lo, hi)
        try:
            if d["type"] == "data_block":
                val = decode_objarr(rr)
            elif d["type"] == "pix_data_block":
                val = decode_pix(rr)
            elif d["type"] == "dnd_data_block":
                val = decode_dnd(rr)
            else:
                problems.append(("block_type", f"block {d['name']}: unknown type {d['type']!r}"))
                continue
        except (DecodeError, struct.error, ValueError) as e:
            problems.append(("decode", f"block {d['name']} ({d['type']}) does not decode within "
                                       f"its extent [{lo},{hi}): {e}"))
            continue
        if rr.pos != hi:
            problems.append(("decode", f"block {d['name']} ({d['type']}) decodes to offset "
                                       f"{rr.pos} but its extent ends at {hi}"))
        out["blocks"][d["name"]] = {"desc": d, "value": val}
    return out


# --- helpers to read decoded structs -----------------------------------------------


def sval(obj: dict):
    """Scalar value of a decoded object array (string, float or bool)."""
    d = obj["data"]
    if obj["tag"] == T_CHAR:
        if len(d) != 1:
            raise DecodeError(f"expected one string, got {len(d)}")
        return d[0]
    if len(d) != 1:
        raise DecodeError(f"expected scalar, got {len(d)} elements (dims {obj['dims']})")
    x = d[0]
    return float(x) if obj["tag"] == T_F64 else x


def farr(obj: dict) -> np.ndarray:
    """f64 array in *file* (column-major) dims -> numpy array indexed [i0, i1, ...]."""
    if obj["tag"] != T_F64:
        raise DecodeError(f"expected f64 array, got tag {obj['tag']}")
    return np.asarray(obj["data"], dtype=float).reshape(obj["dims"], order="F")


def one_struct(obj: dict) -> dict:
    if obj["tag"] != T_STRUCT or len(obj["data"]) != 1:
        raise DecodeError(f"expected a single struct, got tag {obj['tag']} x{len(obj.get('data', []))}")
    return obj["data"][0]
