"""Sensitivity: run the checks against seeded property-breaking changes.

For every /verif/seeded/<id>/ (patch.diff + meta.json) the patch is applied to a scratch
copy of /repo/src (outside /repo and /verif, removed afterwards), the check of the
property it breaks is run against the copy (DSIM_SRC), and the outcome is compared with
``expected`` in meta.json ("caught" unless recorded as a known blind spot).

  ./check sensitivity [--tier quick|thorough] [--seeds 0,1] [id ...]
"""

from __future__ import annotations

import json
import os
import shutil
import subprocess
import sys
import time

from . import core, driver

SEEDED = os.path.join(driver.VERIF_ROOT, "seeded")


def _scratch() -> str:
    d = os.path.join(core.scratch_root(), f"dsim-sens.{os.getpid()}")
    os.makedirs(d, exist_ok=True)
    return d


def run_one(mid: str, tier: str, seeds: list[int]) -> dict:
    mdir = os.path.join(SEEDED, mid)
    with open(os.path.join(mdir, "meta.json")) as f:
        meta = json.load(f)
    root = os.path.join(_scratch(), mid)
    shutil.rmtree(root, ignore_errors=True)
    os.makedirs(root)
    try:
        shutil.copytree("/repo/src", os.path.join(root, "src"),
                        ignore=shutil.ignore_patterns("__pycache__", "*.pyc"))
        p = subprocess.run(["patch", "-p1", "-s", "-d", root, "-i", os.path.join(mdir, "patch.diff")],
                           capture_output=True, text=True)
        if p.returncode != 0:
            return {"id": mid, "status": "PATCH-FAILED", "detail": (p.stdout + p.stderr)[-400:], "meta": meta}
        props = meta.get("checks") or [meta["property"]]
        t0 = time.monotonic()
        caught_by = []
        lines = []
        harness = False
        for prop in props:
            for s in seeds:
                env = dict(os.environ, DSIM_SRC=os.path.join(root, "src"), VERIF_SEED=str(s),
                           DSIM_EVIDENCE_DIR=os.path.join(root, "evidence"), DSIM_REPLAY_DIR=os.path.join(root, "replays"))
                r = subprocess.run([os.path.join(driver.VERIF_ROOT, "check"), prop, tier],
                                   capture_output=True, text=True, env=env)
                viol = [ln for ln in r.stdout.splitlines() if ln.startswith("VIOLATION")]
                detail = [ln for ln in r.stdout.splitlines() if ln.startswith("  clause=")]
                lines.append(f"{prop} seed={s} exit={r.returncode} violations={len(viol)}"
                             + (f" :: {detail[0][:200]}" if detail else ""))
                if r.returncode == 1 and viol:
                    caught_by.append(f"{prop}@seed{s}")
                    break
                if r.returncode == 2:
                    harness = True
                    lines.append("   HARNESS: " + r.stdout[-300:].replace("\n", " | "))
            if caught_by:
                break
        status = "CAUGHT" if caught_by else ("HARNESS-ERROR" if harness else "MISSED")
        return {"id": mid, "status": status, "by": caught_by, "wall_s": round(time.monotonic() - t0, 1),
                "lines": lines, "meta": meta}
    finally:
        shutil.rmtree(root, ignore_errors=True)


def main(argv: list[str]) -> int:
    tier = "quick"
    seeds = [0]
    ids = []
    i = 0
    while i < len(argv):
        if argv[i] == "--tier":
            tier = argv[i + 1]
            i += 2
        elif argv[i] == "--seeds":
            seeds = [int(x) for x in argv[i + 1].split(",")]
            i += 2
        else:
            ids.append(argv[i])
            i += 1
    if not os.path.isdir(SEEDED):
        print("no seeded changes")
        return 0
    all_ids = sorted(d for d in os.listdir(SEEDED) if os.path.exists(os.path.join(SEEDED, d, "patch.diff")))
    ids = [x for x in all_ids if not ids or x in ids]
    bad = 0
    results = []
    try:
        for mid in ids:
            r = run_one(mid, tier, seeds)
            results.append(r)
            exp = r["meta"].get("expected", "caught")
            # seeded property-breaking changes must be reported; correct changes ("benign") and
            # changes neutralised by a later repair must pass quietly; a harness error is never ok
            ok = (r["status"] == "CAUGHT") if exp == "caught" else (r["status"] == "MISSED")
            print(f"{mid}: {r['status']} (expected {exp}) {r.get('by', '')} {r.get('wall_s', '')}s")
            for ln in r.get("lines", []):
                print("    " + ln)
            if r["status"] == "PATCH-FAILED":
                print("    " + r["detail"])
            if not ok:
                bad += 1
    finally:
        shutil.rmtree(_scratch(), ignore_errors=True)
    # the full table lives in LAST_RESULTS.json; a run on selected ids (or with other seeds / tier)
    # goes to LAST_PARTIAL.json so that it cannot clobber the table
    whole = len(ids) == len(all_ids) and seeds == [0] and tier == "quick"
    with open(os.path.join(driver.VERIF_ROOT, "seeded", "LAST_RESULTS.json" if whole else "LAST_PARTIAL.json"), "w") as f:
        json.dump([{k: v for k, v in r.items() if k != "meta"} for r in results], f, indent=1)
    print(f"sensitivity: {sum(r['status'] == 'CAUGHT' for r in results)}/{len(results)} caught, "
          f"{bad} differ from expectation")
    return 0 if bad == 0 else 2


if __name__ == "__main__":
    sys.exit(main(sys.argv[1:]))
