"""Reference model for C20: the three bundled tables parsed independently (csv
module, no library code), and the expected answer / rejection for any name.
"""

from __future__ import annotations

import csv
import os
import re

SP_FIELDS = (
    ("coherent_scattering_length_re", "fm"),
    ("coherent_scattering_length_im", "fm"),
    ("incoherent_scattering_length_re", "fm"),
    ("incoherent_scattering_length_im", "fm"),
    ("coherent_scattering_cross_section", "barn"),
    ("incoherent_scattering_cross_section", "barn"),
    ("total_scattering_cross_section", "barn"),
    ("absorption_cross_section", "barn"),
)


def _qty(value: str, std: str, unit: str):
    if value == "":
        return None
    v = float(value)
    var = float(std) ** 2 if std != "" else None
    return (v, var, unit)


class Tables:
    def __init__(self, src_root: str):
        d = os.path.join(src_root, "scippneutron", "atoms")
        self.sp: dict[str, list] = {}
        self.sp_order: list[str] = []
        with open(os.path.join(d, "scattering_parameters.csv"), newline="") as f:
            for row in csv.reader(f):
                if not row:
                    continue
                assert len(row) == 17, row
                name = row[0]
                assert name not in self.sp, f"duplicate row {name}"
                self.sp[name] = [
                    _qty(row[1 + 2 * i], row[2 + 2 * i], unit)
                    for i, (_, unit) in enumerate(SP_FIELDS)
                ]
                self.sp_order.append(name)
        self.weights: dict[str, tuple] = {}
        self.w_order: list[str] = []
        with open(os.path.join(d, "atomic_weights.csv"), newline="") as f:
            rows = list(csv.reader(f))
        assert rows[0][0].startswith("#") and rows[1][0] == "Element"
        for row in rows[2:]:
            if not row:
                continue
            name, z, w, e = row
            assert name not in self.weights
            self.weights[name] = (int(z), _qty(w, e, "Da"))
            self.w_order.append(name)
        self.masses: dict[str, tuple] = {}
        self.m_order: list[str] = []
        with open(os.path.join(d, "atomic_masses.csv"), newline="") as f:
            rows = list(csv.reader(f))
        assert rows[0][0].startswith("#") and rows[1][0] == "Isotope"
        for row in rows[2:]:
            if not row:
                continue
            name, m, e = row
            assert name not in self.masses
            self.masses[name] = _qty(m, e, "Da")
            self.m_order.append(name)

    # -- expectations --------------------------------------------------------
    def expect_sp(self, name: str):
        """Return list of 8 (value, variance, unit)|None, or None if to be rejected."""
        return self.sp.get(name)

    def expect_atom(self, name: str):
        """Return dict(z, weight, mass) or None if the name must be rejected.

        A name is an *element* of the tables iff it is a first-column entry of the
        weights table; an *isotope* iff it is a first-column entry of the masses table
        (its element is the trailing letters).
        """
        if name in self.weights:
            z, w = self.weights[name]
            return {"z": z, "weight": w, "mass": None, "kind": "element"}
        if name in self.masses:
            m = re.fullmatch(r"(\d+)([A-Za-z]+)", name)
            if m is None or m.group(2) not in self.weights:
                # an isotope row whose element has no row in the weights table:
                # reported separately by the engine (table-consistency probe)
                return {"z": None, "weight": None, "mass": self.masses[name],
                        "kind": "isotope-without-element"}
            z, w = self.weights[m.group(2)]
            return {"z": z, "weight": w, "mass": self.masses[name], "kind": "isotope"}
        return None

    def all_names(self):
        return (
            [("sp", n) for n in self.sp_order]
            + [("atom", n) for n in self.w_order]
            + [("atom", n) for n in self.m_order]
        )
