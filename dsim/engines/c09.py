"""C09 — computations never modify their arguments; results and handed-out objects do
not depend on call history.

1-3 simulated callers issue calls / obtains / derivations / mutations / observations
over a shared pool of argument objects (built in the forms that make the library's
internal ``copy=False`` conversions alias the caller's buffer) and of handles to
objects the library handed out.  Pre-emption points inside library code (settrace line
ordinals) run another caller's operation in the middle of a call and re-check the
argument snapshots.  The reference for every operation is the same operation executed
alone (with its handle's own lineage) in a process forked from the still-pristine run.
"""

from __future__ import annotations

import copy
import io
import json
import os
import warnings

import numpy as np

from .. import canon, core, seams
from . import Engine

# =============================================================================
# argument kinds and forms (the "aliasing grid")

KINDS = {
    # "others" deliberately lists many SI-prefixed units: the unit a function converts to
    # internally is not always the unit of its result (e.g. metres inside the gravity code)
    "time": {"target": "us", "others": ["ns", "ms", "s", "us"], "lo": 2.0e3, "hi": 6.0e4},
    "length": {"target": "m", "others": ["mm", "cm", "km", "angstrom"], "lo": 5.0, "hi": 80.0},
    "length_s": {"target": "m", "others": ["mm", "cm", "angstrom"], "lo": 1.0, "hi": 4.0},
    "angle": {"target": "rad", "others": ["deg", "mrad"], "lo": 0.05, "hi": 3.0},
    "wavelength": {"target": "angstrom", "others": ["nm", "m", "pm", "um", "mm"], "lo": 0.5, "hi": 10.0},
    "energy": {"target": "meV", "others": ["eV", "ueV", "J"], "lo": 1.0, "hi": 100.0},
    "energy_big": {"target": "meV", "others": ["eV", "J"], "lo": 200.0, "hi": 500.0},
    "Q": {"target": "1/angstrom", "others": ["1/nm", "1/m", "1/pm"], "lo": 0.2, "hi": 10.0},
    "density": {"target": "1/angstrom**3", "others": ["1/nm**3"], "lo": 0.01, "hi": 1.0},
}
VEC_KINDS = {"vec_pos": "m", "vec_beam": "m", "vec_Q": "1/angstrom", "gravity": "m/s**2"}
SHAPES = ["0d", "1d", "1d", "view", "2d", "binned"]


def gen_form(rng, kind):
    if kind in VEC_KINDS:
        return {"unit": rng.choice(["target", "target", "other"]), "dtype": "float64",
                "shape": rng.choice(["0d", "1d", "view"]), "seed": rng.randrange(1 << 30), "n": rng.choice([1, 3, 8]),
                "dim": rng.choice(["event", "event", "det"])}
    return {"unit": rng.choice(["target", "other", "other"]), "choice": rng.randrange(8),
            "dtype": rng.choice(["float64", "float64", "float32", "int64"]),
            "shape": rng.choice(SHAPES), "seed": rng.randrange(1 << 30), "n": rng.choice([1, 3, 8, 16]),
            "dim": rng.choice(["event", "event", "det", "wavelength"])}


def build_arg(kind, form, dim=None):
    """Return (object, parent_or_None).  A pure function of (kind, form)."""
    import scipp as sc

    dim = dim or form.get("dim", "event")
    g = np.random.default_rng(form["seed"])
    n = form["n"]
    if kind == "vec_dir":
        return sc.vector([0.0, 0.0, 1.0]), None
    if kind == "schema_arg":
        # the documented forms of a schema argument: one CIFSchema or any iterable of them
        from scippneutron.io import cif

        mine = cif.CIFSchema(name="myCIF", version="1.0", location="https://example.org/my.dic")
        alts = [lambda: {cif.PD_SCHEMA}, lambda: {cif.PD_SCHEMA, mine}, lambda: [cif.PD_SCHEMA], lambda: (mine,),
                lambda: cif.PD_SCHEMA, lambda: {cif.CORE_SCHEMA, mine}, lambda: frozenset({mine}), lambda: set()]
        return alts[form.get("choice", form["seed"]) % len(alts)](), None
    if kind == "cif_item":
        # a ready-made chunk or loop the caller owns (and may have put into other blocks)
        import scipp as sc
        from scippneutron.io import cif

        alts = [lambda: cif.Chunk({"p.a": 1.5, "p.b": "two"}, comment="owner's comment"),
                lambda: cif.Loop({"q.x": sc.array(dims=["r"], values=[1.0, 2.0])}, comment=""),
                lambda: cif.Chunk({"p.c": 3}),
                lambda: cif.Loop({"q.y": sc.array(dims=["r"], values=["u", "v w"])}, comment="shared by all runs")]
        return alts[form.get("choice", form["seed"]) % len(alts)](), None
    if kind == "vec_axis0":
        # a direction as callers have it: already a unit vector, or a difference of two
        # positions (not normalised, with a length unit), or any vector along the axis
        alts = [([0.0, 1.0, 0.0], None), ([0.0, 0.04, 0.0], "m"), ([0.0, 3.0, 4.0], None), ([0.0, 40.0, 0.0], "mm"),
                ([0.0, 1.0, 0.0], None), ([0.6, 0.0, 0.8], None)]
        v, u = alts[form.get("choice", form["seed"]) % len(alts)]
        return (sc.vector(v, unit=u) if u else sc.vector(v)), None
    if kind == "vec_base0":
        u = "mm" if form["unit"] == "target" else "m"
        f = 1.0 if u == "mm" else 1e-3
        return sc.vector([0.0, -0.5 * f, 0.0], unit=u), None
    if kind in ("mat_rot", "mat_lin"):
        import scipp.spatial

        g = np.random.default_rng(form["seed"])
        if kind == "mat_rot":
            rv = sc.vectors(dims=[dim], values=g.uniform(-1, 1, (max(form["n"], 1), 3)), unit="rad")
            m = sc.spatial.rotations_from_rotvecs(rv)
        else:
            unit = "1/angstrom" if form["unit"] == "target" else "1/nm"
            vals = np.eye(3)[None, :, :] * g.uniform(0.2, 0.5, (max(form["n"], 1), 1, 1)) + g.uniform(-0.05, 0.05, (max(form["n"], 1), 3, 3))
            m = sc.spatial.linear_transforms(dims=[dim], values=vals, unit=unit)
        if form["shape"] == "0d":
            return m[dim, 0].copy(), None
        if form["shape"] == "view" and form["n"] > 2:
            return m[dim, 1:form["n"] - 1], m
        return m, None
    if kind in VEC_KINDS:
        unit = VEC_KINDS[kind] if form["unit"] == "target" else {"m": "mm", "1/angstrom": "1/nm",
                                                                 "m/s**2": "cm/s**2"}[VEC_KINDS[kind]]
        scale = {"mm": 1e3, "1/nm": 10.0, "cm/s**2": 100.0}.get(unit, 1.0)
        if kind == "vec_dir":
            return sc.vector([0.0, 0.0, 1.0]), None
        if kind == "gravity":
            base = np.array([[0.0, -9.81, 0.0]] * max(n, 1)) * scale
        elif kind == "vec_beam0":
            base = np.array([[0.0, 0.0, 1.0]]) * g.uniform(5, 50, (max(n, 1), 1)) * scale
        elif kind == "vec_beam":
            base = (np.array([[0.0, 0.0, 1.0]]) * g.uniform(5, 50, (max(n, 1), 1)) + g.uniform(-0.3, 0.3, (max(n, 1), 3))) * scale
        else:
            base = g.uniform(-3, 3, (max(n, 1), 3)) * scale + np.array([0.0, 0.0, 20.0 * scale])
        if form["shape"] == "0d":
            return sc.vector(base[0], unit=unit), None
        if form["shape"] == "view":
            parent = sc.vectors(dims=[dim], values=np.concatenate([base, base + 1.0, base - 1.0])[: n + 4], unit=unit)
            return parent[dim, 2:n + 2], parent
        return sc.vectors(dims=[dim], values=base[:n], unit=unit), None
    k = KINDS[kind]
    unit = k["target"] if form["unit"] == "target" else k["others"][form["seed"] % len(k["others"])]
    if "fixed" in k:
        # exact values (in the target unit) for arguments that must satisfy a relation; a list of
        # lists offers boundary / degenerate alternatives selected by the form's choice index
        fx = sc.to_unit(sc.scalar(1.0, unit=k["target"]), unit).value
        fixed = k["fixed"]
        if fixed and isinstance(fixed[0], list):
            fixed = fixed[form.get("choice", form["seed"] // 7) % len(fixed)]
        v = np.asarray(fixed, dtype=float) * fx
        if form["dtype"] == "float32":
            v = v.astype("float32")
        if k.get("scalar"):
            return sc.scalar(v[0], unit=unit), None
        if form["shape"] == "view":
            parent = sc.array(dims=[k.get("dim", dim)], values=np.concatenate([[0.0, 0.0], v, [0.0, 0.0]]), unit=unit)
            return parent[k.get("dim", dim), 2:2 + len(v)], parent
        return sc.array(dims=[k.get("dim", dim)], values=v, unit=unit), None
    f = sc.to_unit(sc.scalar(1.0, unit=k["target"]), unit).value
    dt = np.dtype(form["dtype"])
    lo, hi = k["lo"] * f, k["hi"] * f
    if dt.kind == "i":
        lo, hi = max(1.0, lo), max(2.0, hi)

    def vals(m):
        v = g.uniform(lo, hi, m)
        return (np.floor(v) if dt.kind == "i" else v).astype(dt)

    shape = form["shape"]
    if shape == "0d":
        return sc.scalar(vals(1)[0], unit=unit, dtype=form["dtype"]), None
    if shape == "1d":
        return sc.array(dims=[dim], values=vals(n), unit=unit), None
    if shape == "2d":
        return sc.array(dims=["spectrum", dim], values=vals(2 * n).reshape(2, n), unit=unit), None
    if shape == "view":
        parent = sc.array(dims=[dim], values=vals(n + 4), unit=unit)
        return parent[dim, 2:n + 2], parent
    # binned: events in 2 bins, buffer in the chosen unit
    buf = sc.DataArray(sc.ones(sizes={"ev": 2 * n}, unit="counts"),
                       coords={"x": sc.array(dims=["ev"], values=vals(2 * n), unit=unit)})
    begin = sc.array(dims=["spectrum"], values=[0, n], unit=None, dtype="int64")
    binned = sc.bins(begin=begin, dim="ev", data=buf)
    return binned.bins.coords["x"], binned


def _kw(**kinds):
    return kinds


def _mod(path):
    import importlib

    return importlib.import_module(path)


# =============================================================================
# catalogue: plain calls  key -> (callable getter, {argname: kind}, fixed kwargs)


def _tof(name):
    return lambda: getattr(_mod("scippneutron.conversion.tof"), name)


def _bl(name):
    return lambda: getattr(_mod("scippneutron.conversion.beamline"), name)


CALLS = {
    "tof.wavelength_from_tof": (_tof("wavelength_from_tof"), _kw(tof="time", Ltotal="length")),
    "tof.dspacing_from_tof": (_tof("dspacing_from_tof"), _kw(tof="time", Ltotal="length", two_theta="angle")),
    "tof.energy_from_tof": (_tof("energy_from_tof"), _kw(tof="time", Ltotal="length")),
    "tof.energy_transfer_direct_from_tof": (_tof("energy_transfer_direct_from_tof"),
                                            _kw(tof="time", L1="length", L2="length_s", incident_energy="energy_big")),
    "tof.energy_transfer_indirect_from_tof": (_tof("energy_transfer_indirect_from_tof"),
                                              _kw(tof="time", L1="length", L2="length_s", final_energy="energy_big")),
    "tof.energy_from_wavelength": (_tof("energy_from_wavelength"), _kw(wavelength="wavelength")),
    "tof.wavelength_from_energy": (_tof("wavelength_from_energy"), _kw(energy="energy")),
    "tof.Q_from_wavelength": (_tof("Q_from_wavelength"), _kw(wavelength="wavelength", two_theta="angle")),
    "tof.wavelength_from_Q": (_tof("wavelength_from_Q"), _kw(Q="Q", two_theta="angle")),
    "tof.dspacing_from_wavelength": (_tof("dspacing_from_wavelength"), _kw(wavelength="wavelength", two_theta="angle")),
    "tof.dspacing_from_energy": (_tof("dspacing_from_energy"), _kw(energy="energy", two_theta="angle")),
    "tof.Q_elements_from_wavelength": (_tof("Q_elements_from_wavelength"),
                                       _kw(wavelength="wavelength", incident_beam="vec_beam", scattered_beam="vec_pos")),
    "tof.Q_vec_from_Q_elements": (_tof("Q_vec_from_Q_elements"), _kw(Qx="Q", Qy="Q", Qz="Q")),
    "tof.hkl_elements_from_hkl_vec": (_tof("hkl_elements_from_hkl_vec"), _kw(hkl_vec="vec_Q")),
    "tof.time_at_sample_from_tof": (_tof("time_at_sample_from_tof"),
                                    _kw(pulse_time="time", tof="time", L2="length_s", wavelength="wavelength")),
    "beamline.L1": (_bl("L1"), _kw(incident_beam="vec_beam")),
    "beamline.L2": (_bl("L2"), _kw(scattered_beam="vec_pos")),
    "beamline.straight_incident_beam": (_bl("straight_incident_beam"), _kw(source_position="vec_pos", sample_position="vec_pos")),
    "beamline.straight_scattered_beam": (_bl("straight_scattered_beam"), _kw(position="vec_pos", sample_position="vec_pos")),
    "beamline.total_beam_length": (_bl("total_beam_length"), _kw(L1="length", L2="length_s")),
    "beamline.total_straight_beam_length_no_scatter": (_bl("total_straight_beam_length_no_scatter"),
                                                       _kw(source_position="vec_pos", position="vec_pos")),
    "beamline.two_theta": (_bl("two_theta"), _kw(incident_beam="vec_beam", scattered_beam="vec_pos")),
    "beamline.beam_aligned_unit_vectors": (_bl("beam_aligned_unit_vectors"), _kw(incident_beam="vec_beam", gravity="gravity")),
    "beamline.scattering_angles_with_gravity": (_bl("scattering_angles_with_gravity"),
                                                _kw(incident_beam="vec_beam", scattered_beam="vec_pos",
                                                    wavelength="wavelength", gravity="gravity")),
    "beamline.scattering_angle_in_yz_plane": (_bl("scattering_angle_in_yz_plane"),
                                              _kw(incident_beam="vec_beam0", scattered_beam="vec_pos",
                                                  wavelength="wavelength", gravity="gravity")),
    "cascade.wavelength_to_inverse_velocity": (lambda: _mod("scippneutron.tof.chopper_cascade").wavelength_to_inverse_velocity,
                                               _kw(wavelength="wavelength")),
    "cascade.propagate_times": (lambda: _mod("scippneutron.tof.chopper_cascade").propagate_times,
                                _kw(time="time_s", wavelength="wavelength", distance="length")),
    "convert.tof_to": (lambda: _convert, {"$data": "tofdata"}),
    "peaks.remove_peaks": (lambda: _remove_peaks_call, {"$data": "spectrum"}),
    "xye.roundtrip": (lambda: _xye_roundtrip, {"$data": "spectrum_var"}),
}
VEC_KINDS["vec_beam0"] = "m"  # orthogonal to gravity (along z)
SAME_LAYOUT = {"tof.Q_vec_from_Q_elements"}
KINDS["time_s"] = {"target": "s", "others": ["ms", "us"], "lo": 1e-3, "hi": 5e-2}
KINDS["chopper_freq"] = {"target": "Hz", "others": ["kHz", "mHz"], "fixed": [28.0], "scalar": True, "lo": 1, "hi": 2}
KINDS["pulse_freq"] = {"target": "Hz", "others": ["kHz", "mHz"], "fixed": [14.0], "scalar": True, "lo": 1, "hi": 2}
KINDS["phase"] = {"target": "rad", "others": ["deg"], "fixed": [0.3], "scalar": True, "lo": 0, "hi": 1}
KINDS["beam_pos"] = {"target": "rad", "others": ["deg"], "fixed": [0.1], "scalar": True, "lo": 0, "hi": 1}
KINDS["slit_begin"] = {"target": "rad", "others": ["deg"], "fixed": [0.2, 1.5, 3.0], "dim": "slit", "lo": 0, "hi": 1}
KINDS["slit_end"] = {"target": "rad", "others": ["deg"], "fixed": [0.6, 2.2, 3.3], "dim": "slit", "lo": 0, "hi": 1}
KINDS["vertex_time"] = {"target": "s", "others": ["ms", "us"], "fixed": [0.0, 3e-3, 3e-3, 0.0], "dim": "vertex", "lo": 0, "hi": 1}
KINDS["vertex_wav"] = {"target": "angstrom", "others": ["nm", "m"], "fixed": [0.5, 0.5, 9.0, 9.0], "dim": "vertex", "lo": 0, "hi": 1}
KINDS["tmin"] = {"target": "s", "others": ["ms", "us"], "fixed": [0.0], "scalar": True, "lo": 0, "hi": 1}
KINDS["tmax"] = {"target": "s", "others": ["ms", "us"], "fixed": [3e-3], "scalar": True, "lo": 0, "hi": 1}
KINDS["wmin"] = {"target": "angstrom", "others": ["nm", "m"], "fixed": [0.5], "scalar": True, "lo": 0, "hi": 1}
KINDS["wmax"] = {"target": "angstrom", "others": ["nm", "m"], "fixed": [9.0], "scalar": True, "lo": 0, "hi": 1}
KINDS["m_amp"] = {"target": "counts*angstrom", "others": ["counts*nm"], "fixed": [[3.0], [0.0], [-1.0]], "scalar": True, "lo": 0, "hi": 1}
KINDS["m_loc"] = {"target": "angstrom", "others": ["nm", "m"], "fixed": [[2.5], [0.0], [100.0]], "scalar": True, "lo": 0, "hi": 1}
KINDS["m_scale"] = {"target": "angstrom", "others": ["nm", "m"], "fixed": [[0.7], [0.0], [-0.2], [1e-16], [1e-15]], "scalar": True, "lo": 0, "hi": 1}
KINDS["m_frac"] = {"target": "dimensionless", "others": ["percent"], "fixed": [[0.3], [0.0], [1.0]], "scalar": True, "lo": 0, "hi": 1}
KINDS["xgrid"] = {"target": "angstrom", "others": ["nm", "m"], "fixed": [0.0, 1.0, 2.0, 3.0, 4.0, 5.0, 6.0], "dim": "x", "lo": 0, "hi": 1}


def _disk_chopper(*, frequency, phase, slit_begin, slit_end, beam_position, pulse_frequency):
    import scipp as sc
    from scippneutron.chopper import DiskChopper

    ch = DiskChopper(axle_position=sc.vector([0.0, 0.0, 8.0], unit="m"), frequency=frequency,
                     beam_position=beam_position, phase=phase, slit_begin=slit_begin, slit_end=slit_end,
                     radius=sc.scalar(0.35, unit="m"))
    return {"open": ch.time_offset_open(pulse_frequency=pulse_frequency),
            "close": ch.time_offset_close(pulse_frequency=pulse_frequency),
            "duration": ch.open_duration(pulse_frequency=pulse_frequency),
            "angle": ch.time_offset_angle_at_beam(angle=slit_begin), "n": ch.n_slits,
            "omega": ch.angular_frequency, "cw": ch.is_clockwise,
            "cascade": _mod("scippneutron.tof.chopper_cascade").Chopper.from_disk_chopper(
                ch, pulse_frequency=pulse_frequency, npulses=2)}


def _subframe(*, time, wavelength, distance):
    cc = _mod("scippneutron.tof.chopper_cascade")
    sf = cc.Subframe(time=time, wavelength=wavelength)
    moved = sf.propagate_by(distance)
    fr = cc.Frame(distance=_sv(0.0, "m"), subframes=[sf]).propagate_to(distance)
    return {"moved": moved, "regular": moved.is_regular(), "start": moved.start_time, "end": moved.end_time,
            "w0": moved.start_wavelength, "w1": moved.end_wavelength, "bounds": fr.bounds(), "sub": fr.subbounds()}


def _source_pulse(*, time_min, time_max, wavelength_min, wavelength_max, distance):
    cc = _mod("scippneutron.tof.chopper_cascade")
    fs = cc.FrameSequence.from_source_pulse(time_min=time_min, time_max=time_max,
                                            wavelength_min=wavelength_min, wavelength_max=wavelength_max)
    fs = fs.chop([_chopper()]).propagate_to(distance)
    return {"n": len(fs), "last": fs[len(fs) - 1], "at": fs[distance]}


def _model_call(*, x):
    import scipp as sc

    out = {}
    for name in ("gaussian", "lorentzian", "pseudo_voigt", "quadratic"):
        m = _model(name, "p_")()
        vals = {"amplitude": sc.scalar(3.0, unit=sc.Unit("counts") * x.unit), "loc": sc.scalar(2.5, unit=x.unit),
                "scale": sc.scalar(0.7, unit=x.unit), "fraction": sc.scalar(0.3),
                "a0": sc.scalar(1.0, unit="counts"), "a1": sc.scalar(0.1, unit=sc.Unit("counts") / x.unit),
                "a2": sc.scalar(0.01, unit=sc.Unit("counts") / x.unit**2)}
        out[name] = m(x, **{n: vals[n[2:]] for n in m.param_names})
    return out


def _model_params(*, x, amplitude, loc, scale, fraction):
    out = {}
    for name in ("gaussian", "lorentzian", "pseudo_voigt"):
        m = _model(name, "")()
        vals = {"amplitude": amplitude, "loc": loc, "scale": scale, "fraction": fraction}
        _, exc = core.capture(m, x, **{n: vals[n] for n in m.param_names})
        res, exc = core.capture(m, x, **{n: vals[n] for n in m.param_names})
        out[name] = ["exc", exc.name] if exc else res
        out[name + ".fwhm"] = m.fwhm({n: vals[n] for n in m.param_names})
    comp = _model("linear", "bkg_")() + _model("gaussian", "peak_")()
    import scipp as sc

    res, exc = core.capture(comp, x, bkg_a0=sc.scalar(1.0, unit="counts"),
                            bkg_a1=sc.scalar(0.5, unit=sc.Unit("counts") / x.unit),
                            peak_amplitude=amplitude, peak_loc=loc, peak_scale=scale)
    out["composite"] = ["exc", exc.name] if exc else res
    return out


def _transmission(*, wavelength, beam_direction, detector_position):
    from scippneutron.absorption import compute_transmission_map

    return compute_transmission_map(_cyl(), _material("V")(), beam_direction=beam_direction,
                                    wavelength=wavelength, detector_position=detector_position,
                                    quadrature_kind="cheap")


def _plateaus(*, data):
    import scipp as sc
    from scippneutron.chopper import collapse_plateaus, filter_in_phase, find_plateaus

    pl = find_plateaus(data, atol=sc.scalar(1e-3, unit=data.unit / data.coords[data.dim].unit), min_n_points=3)
    col = collapse_plateaus(pl, coord=data.dim)
    return {"plateaus": pl, "collapsed": col,
            "in_phase": filter_in_phase(col, reference=sc.scalar(7.0, unit=data.unit), rtol=sc.scalar(0.05))}


def _components(*, data):
    bc = _mod("scippneutron.beamline_components")
    return {"position": bc.position(data), "source": bc.source_position(data), "sample": bc.sample_position(data),
            "L1": bc.L1(data), "L2": bc.L2(data), "Ltotal": bc.Ltotal(data, scatter=True),
            "two_theta": bc.two_theta(data), "ib": bc.incident_beam(data), "sb": bc.scattered_beam(data)}


def _fit_small(*, data):
    import scipp as sc
    from scippneutron.peaks import FitParameters, FitRequirements, fit_peaks

    x = data.coords[data.dim]
    mid = (x.min() + x.max()) / 2
    # settings variant chosen by the recipe (carried in the data array's name)
    v = int(data.name[1:]) if data.name.startswith("v") else 0
    kw = [{}, {"fit_requirements": FitRequirements(max_peak_width_factor=0.01)},
          {"fit_requirements": FitRequirements(min_p_value=0.0, max_peak_width_factor=100.0, min_peak_width_factor=0.0)},
          {"fit_parameters": FitParameters(guess_background_fraction=0.2)},
          {"fit_requirements": FitRequirements(min_p_value=0.999999)}][v % 5]
    res = fit_peaks(data, peak_estimates=sc.concat([mid], data.dim), windows=(x.max() - x.min()) * 0.8,
                    background="linear", peak="gaussian", **kw)
    return [[r.assessment, r.message, r.window, dict(r.popt), r.red_chisq, r.p_value, r.aic] for r in res]


CALLS.update({
    "chopper.DiskChopper": (lambda: _disk_chopper, _kw(frequency="chopper_freq", phase="phase", slit_begin="slit_begin",
                                                       slit_end="slit_end", beam_position="beam_pos",
                                                       pulse_frequency="pulse_freq")),
    "cascade.Subframe": (lambda: _subframe, _kw(time="vertex_time", wavelength="vertex_wav", distance="length")),
    "cascade.from_source_pulse": (lambda: _source_pulse, _kw(time_min="tmin", time_max="tmax", wavelength_min="wmin",
                                                             wavelength_max="wmax", distance="length")),
    "peaks.model.__call__": (lambda: _model_call, _kw(x="xgrid")),
    "peaks.model.params": (lambda: _model_params, _kw(x="xgrid", amplitude="m_amp", loc="m_loc", scale="m_scale",
                                                      fraction="m_frac")),
    "absorption.compute_transmission_map": (lambda: _transmission, _kw(wavelength="wavelength", beam_direction="vec_dir",
                                                                       detector_position="vec_pos")),
    "chopper.plateaus": (lambda: _plateaus, {"$data": "plateau_data"}),
    "beamline_components": (lambda: _components, {"$data": "tofdata"}),
    "peaks.fit_peaks": (lambda: _fit_small, {"$data": "spectrum_var"}),
})
VEC_KINDS["vec_dir"] = "dimensionless"
VEC_KINDS["mat_rot"] = "dimensionless"
VEC_KINDS["mat_lin"] = "1/angstrom"


KINDS["slit_edges"] = {"target": "rad", "others": ["deg"], "fixed": [0.2, 0.6, 1.5, 2.2, 3.0, 3.3], "dim": "slit", "lo": 0, "hi": 1}


def _from_nexus(*, frequency, phase, slit_edges, beam_position, pulse_frequency):
    import scipp as sc
    from scippneutron.chopper import DiskChopper, extract_chopper_from_nexus

    raw = sc.DataGroup({
        "position": sc.vector([0.0, 0.0, 8.0], unit="m"),
        "rotation_speed": sc.DataGroup({"value": sc.DataArray(
            sc.concat([frequency], "time"), coords={"time": sc.array(dims=["time"], values=[0.0], unit="s")})}),
        "beam_position": beam_position, "phase": phase, "slit_edges": slit_edges,
        "slit_height": sc.scalar(0.1, unit="m"), "radius": sc.scalar(0.35, unit="m"),
        "top_dead_center": sc.DataGroup({"time": sc.array(dims=["time"], values=[1, 2], unit="ms")}),
    })
    proc = extract_chopper_from_nexus(raw)
    # time-dependent log -> constant value (what the user guide asks callers to do)
    ch = DiskChopper.from_nexus({**proc, "rotation_speed": proc["rotation_speed"].data})
    return {"processed": proc, "open": ch.time_offset_open(pulse_frequency=pulse_frequency),
            "close": ch.time_offset_close(pulse_frequency=pulse_frequency), "eq": ch == ch}


def _deduce(*, data):
    import scippneutron as scn

    return {t: scn.deduce_conversion_graph(data, origin="tof", target=t, scatter=True)
            for t in ("wavelength", "dspacing", "energy", "Q")}


def _cif_lowlevel(*, column, other):
    from scippneutron.io import cif

    loop = cif.Loop({"x.col": column}, comment="c")
    try:
        loop["x.other"] = other
    except Exception:  # noqa: BLE001  (shape mismatch is fine: the loop keeps its first column)
        pass
    block = cif.Block("b", [loop, cif.Chunk({"y.scalar": column[column.dim, 0] if column.ndim else column})])
    s = io.StringIO()
    cif.save_cif(s, block, comment="file")
    return _canon_cif_text(s.getvalue())


def _guess_all(*, data):
    """Model.guess for every model kind on the caller's own data array."""
    out = {}
    for name in ("gaussian", "lorentzian", "pseudo_voigt", "linear", "quadratic"):
        res, exc = core.capture(_model(name, "g_")().guess, data)
        out[name] = ["exc", exc.name] if exc else res
    comp = _model("linear", "bkg_")() + _model("gaussian", "peak_")()
    res, exc = core.capture(comp.guess, data)
    out["composite"] = ["exc", exc.name] if exc else res
    return out


def _fit_counts(*, data):
    import scipp as sc
    from scippneutron.peaks import fit_peaks

    x = data.coords[data.dim]
    imax = int(np.argmax(data.values))
    res, exc = core.capture(fit_peaks, data, peak_estimates=sc.concat([x[imax]], data.dim), windows=(x.max() - x.min()),
                            background="linear", peak="gaussian")
    if exc:
        return ["exc", exc.name]
    return [[r.assessment, r.message, r.window, dict(r.popt)] for r in res]


def _cif_ctors(*, schema, column):
    """The CIF item constructors with the caller's own schema container and column."""
    from scippneutron.io import cif

    chunk = cif.Chunk({"a.b": 1.5}, schema=schema)
    loop = cif.Loop({"c.d": column}, schema=schema)
    block = cif.Block("blk", [chunk, loop], schema=schema)
    s = io.StringIO()
    cif.save_cif(s, block)
    return {"text": _canon_cif_text(s.getvalue()),
            "schemas": [sorted(x.name for x in o.schema) for o in (chunk, loop, block)]}


def _block_add(*, item, other):
    """Block.add / Block(...) with ready-made items and with the optional comment."""
    from scippneutron.io import cif

    first = cif.Block("run_a", [item])
    second = cif.Block("run_b", [other], comment="b")
    second.add(item, comment="comment given to add")
    second.add({"d.e": 1}, comment="dict item")
    third = first.copy()
    third.add(other)
    out = {}
    for b in (first, second, third):
        s = io.StringIO()
        cif.save_cif(s, b)
        out[b.name + str(len(out))] = _canon_cif_text(s.getvalue())
    return out


def _cylinder_ctor(*, symmetry_line, center_of_base, radius, height):
    """Constructing the public shape classes is an entry point like any other."""
    from scippneutron.absorption.cylinder import Cylinder

    cyl = Cylinder(symmetry_line=symmetry_line, center_of_base=center_of_base, radius=radius, height=height)
    return {"center": cyl.center, "volume": cyl.volume, "axis": cyl.symmetry_line, "q": cyl.quadrature("cheap")}


def _material_ctor(*, density, wavelength):
    from scippneutron.absorption.material import Material
    from scippneutron.atoms import ScatteringParams

    m = Material(ScatteringParams.for_isotope("V"), density)
    n = m.effective_sample_number_density
    return {"n": n, "mu": m.attenuation_coefficient(wavelength)}


KINDS["cyl_radius"] = {"target": "mm", "others": ["m", "cm"], "fixed": [1.0], "scalar": True, "lo": 0, "hi": 1}
KINDS["cyl_height"] = {"target": "mm", "others": ["m", "cm"], "fixed": [1.5], "scalar": True, "lo": 0, "hi": 1}
KINDS["wavelength_s"] = {"target": "angstrom", "others": ["nm", "pm", "m"], "fixed": [[1.8], [0.5], [6.0]], "scalar": True,
                         "lo": 0, "hi": 1}
KINDS["density_s"] = {"target": "1/angstrom**3", "others": ["1/nm**3", "1/m**3"], "fixed": [0.07], "scalar": True,
                      "lo": 0, "hi": 1}
VEC_KINDS["vec_axis0"] = "dimensionless"
VEC_KINDS["schema_arg"] = "dimensionless"
VEC_KINDS["cif_item"] = "dimensionless"
VEC_KINDS["vec_base0"] = "mm"

CALLS.update({
    "peaks.model.guess(spectrum)": (lambda: _guess_all, {"$data": "spectrum_var"}),
    "peaks.model.guess(counts)": (lambda: _guess_all, {"$data": "counts"}),
    "peaks.fit_peaks(counts)": (lambda: _fit_counts, {"$data": "counts"}),
    "cif.Chunk/Loop/Block(schema=...)": (lambda: _cif_ctors, _kw(schema="schema_arg", column="xgrid")),
    "cif.Block.add(item, comment)": (lambda: _block_add, _kw(item="cif_item", other="cif_item")),
    "absorption.Cylinder(...)": (lambda: _cylinder_ctor, _kw(symmetry_line="vec_axis0", center_of_base="vec_base0",
                                                            radius="cyl_radius", height="cyl_height")),
    "absorption.Material(...)": (lambda: _material_ctor, _kw(density="density_s", wavelength="wavelength_s")),
    "tof.hkl_vec_from_Q_vec": (_tof("hkl_vec_from_Q_vec"), _kw(Q_vec="vec_Q", ub_matrix="mat_lin", sample_rotation="mat_rot")),
    "tof.ub_matrix_from_u_and_b": (_tof("ub_matrix_from_u_and_b"), _kw(u_matrix="mat_rot", b_matrix="mat_lin")),
    "core.deduce_conversion_graph": (lambda: _deduce, {"$data": "tofdata"}),
    "chopper.from_nexus": (lambda: _from_nexus, _kw(frequency="chopper_freq", phase="phase", slit_edges="slit_edges",
                                                    beam_position="beam_pos", pulse_frequency="pulse_freq")),
    "cif.Loop+save_cif": (lambda: _cif_lowlevel, _kw(column="xgrid", other="vertex_wav")),
})
SAME_LAYOUT |= {"cascade.Subframe", "chopper.DiskChopper", "chopper.from_nexus"}


def _convert(*, data, target="wavelength", scatter=True):
    import scippneutron as scn

    return scn.convert(data, origin="tof", target=target, scatter=scatter)


def _remove_peaks_call(*, data):
    import scipp as sc
    from scippneutron.peaks import FitAssessment, FitResult, remove_peaks
    from scippneutron.peaks.model import GaussianModel, PolynomialModel

    x = data.coords[data.dim]
    lo, hi = x.min(), x.max()
    mid = (lo + hi) / 2
    w = sc.concat([mid - (hi - lo) / 4, mid + (hi - lo) / 4], "range")
    r = FitResult(aic=sc.scalar(1.0), assessment=FitAssessment.success, background=PolynomialModel(degree=1, prefix="bkg_"),
                  message="success", p_value=sc.scalar(0.5), peak=GaussianModel(prefix="peak_"),
                  popt={"peak_amplitude": sc.scalar(2.0, unit=data.unit * x.unit), "peak_loc": mid,
                        "peak_scale": (hi - lo) / 20, "bkg_a0": sc.scalar(0.0, unit=data.unit),
                        "bkg_a1": sc.scalar(0.0, unit=data.unit / x.unit)},
                  red_chisq=sc.scalar(1.0), window=w)
    return remove_peaks(data, [r])


def _xye_roundtrip(*, data):
    from scippneutron.io.xye import load_xye, save_xye

    s = io.StringIO()
    save_xye(s, data)
    s.seek(0)
    return load_xye(s, dim=data.dim, unit=data.unit, coord_unit=data.coords[data.dim].unit)


def build_data(kind, form):
    import scipp as sc

    g = np.random.default_rng(form["seed"])
    n = max(4, form["n"])
    if kind == "plateau_data":
        t = sc.array(dims=["time"], values=np.arange(16.0), unit="s")
        v = np.array([14.0] * 5 + [14.0 + 0.5 * k for k in range(1, 4)] + [28.0] * 5 + [3.0] * 3)
        return sc.DataArray(sc.array(dims=["time"], values=v, unit="Hz"), coords={"time": t}), None
    if kind in ("spectrum", "spectrum_var"):
        xs = np.linspace(1.0, 5.0, n + 12)
        x = sc.array(dims=["x"], values=xs, unit="angstrom")
        bump = 8.0 * np.exp(-((xs - 3.0) ** 2) / 0.5)
        y = sc.array(dims=["x"], values=g.uniform(1, 2, n + 12) + bump, unit="counts",
                     variances=g.uniform(0.1, 1, n + 12) if kind == "spectrum_var" else None)
        return sc.DataArray(y, coords={"x": x}, name=f"v{form.get('choice', 0)}"), None
    if kind == "counts":
        # count data with exact ties and degenerate peak tops: what detectors deliver
        shapes = [[0, 0, 0, 0, 5, 5, 0, 0, 0, 0], [1, 1, 1, 1, 6, 6, 1, 1, 1, 1], [0, 0, 0, 9, 0, 0, 0, 0],
                  [2, 2, 3, 7, 7, 7, 3, 2, 2, 2], [4, 4, 4, 4, 4, 4, 4, 4], [0, 1, 3, 8, 3, 1, 0, 0, 0, 0],
                  [0, 0, 0, 0, 0, 0, 0, 5, 5, 0], [5, 5, 0, 0, 0, 0, 0, 0, 0, 0]]
        v = np.asarray(shapes[form.get("choice", form["seed"]) % len(shapes)], dtype=float)
        x = sc.array(dims=["x"], values=np.arange(float(len(v))) * 0.5 + 1.0, unit="angstrom")
        y = sc.array(dims=["x"], values=v, variances=v + 1.0, unit="counts")
        return sc.DataArray(y, coords={"x": x}, name=f"v{form.get('choice', 0)}"), None
    # tofdata: dense or binned data array with a tof coord in the conversion's own unit
    unit = "us" if form["unit"] == "target" else "ms"
    f = 1.0 if unit == "us" else 1e-3
    nspec = 2
    pos = sc.vectors(dims=["spectrum"], values=[[0.1, 0.0, 3.0], [0.4, 0.1, 3.5]], unit="m")
    coords = {"position": pos, "source_position": sc.vector([0.0, 0.0, -20.0], unit="m"),
              "sample_position": sc.vector([0.0, 0.0, 0.0], unit="m")}
    if form["shape"] == "binned":
        buf = sc.DataArray(sc.ones(sizes={"ev": nspec * n}, unit="counts"),
                           coords={"tof": sc.array(dims=["ev"], values=(g.uniform(4e3, 5e4, nspec * n) * f).astype(form["dtype"] if form["dtype"] != "int64" else "float64"), unit=unit)})
        begin = sc.array(dims=["spectrum"], values=[0, n], unit=None, dtype="int64")
        da = sc.DataArray(sc.bins(begin=begin, dim="ev", data=buf), coords=coords)
        return da, None
    tof = sc.array(dims=["tof"], values=(np.sort(g.uniform(4e3, 5e4, n)) * f), unit=unit)
    da = sc.DataArray(sc.array(dims=["spectrum", "tof"], values=g.uniform(0, 5, (nspec, n)), unit="counts"),
                      coords={"tof": tof, **coords})
    return da, None


# =============================================================================
# catalogue: factories (obtain), derivations, mutations


def _gb(name, **kw):
    return lambda: getattr(_mod("scippneutron.conversion.graph.beamline"), name)(**kw)


def _gt(name, start):
    return lambda: getattr(_mod("scippneutron.conversion.graph.tof"), name)(start)


def _model(name, prefix):
    def mk():
        M = _mod("scippneutron.peaks.model")
        return {"gaussian": lambda: M.GaussianModel(prefix=prefix), "lorentzian": lambda: M.LorentzianModel(prefix=prefix),
                "pseudo_voigt": lambda: M.PseudoVoigtModel(prefix=prefix),
                "linear": lambda: M.PolynomialModel(degree=1, prefix=prefix),
                "quadratic": lambda: M.PolynomialModel(degree=2, prefix=prefix)}[name]()
    return mk


def _cyl():
    import scipp as sc
    from scippneutron.absorption.cylinder import Cylinder

    return Cylinder(symmetry_line=sc.vector([0.0, 1.0, 0.0]), center_of_base=sc.vector([0.0, -0.5, 0.0], unit="mm"),
                    radius=sc.scalar(1.0, unit="mm"), height=sc.scalar(1.5, unit="mm"))


def _material(name):
    def mk():
        import scipp as sc
        from scippneutron.absorption.material import Material
        from scippneutron.atoms import ScatteringParams

        return Material(ScatteringParams.for_isotope(name), sc.scalar(0.07, unit="1/angstrom**3"))
    return mk


def _cif(name):
    def mk():
        from scippneutron.io import cif

        return cif.CIF(name, comment="c0")
    return mk


def _cif_block():
    from scippneutron.io import cif

    return cif.Block("blk", [{"a.x": 1, "a.y": "two"}, cif.Chunk({"b.z": 3.5}, comment="ch")], comment="bc")


def _frameseq():
    import scipp as sc
    from scippneutron.tof.chopper_cascade import FrameSequence

    return FrameSequence.from_source_pulse(
        time_min=sc.scalar(0.0, unit="ms"), time_max=sc.scalar(3.0, unit="ms"),
        wavelength_min=sc.scalar(0.5, unit="angstrom"), wavelength_max=sc.scalar(9.0, unit="angstrom"))


FACTORIES = {
    **{f"graph.beamline.{n}": _gb(n) for n in ("incident_beam", "scattered_beam", "two_theta", "L1", "L2")},
    "graph.beamline.Ltotal(True)": _gb("Ltotal", scatter=True),
    "graph.beamline.Ltotal(False)": _gb("Ltotal", scatter=False),
    "graph.beamline.beamline(True)": _gb("beamline", scatter=True),
    "graph.beamline.beamline(False)": _gb("beamline", scatter=False),
    **{f"graph.tof.{n}({s})": _gt(n, s) for n, s in (
        ("elastic", "tof"), ("elastic", "wavelength"), ("elastic", "energy"), ("elastic", "Q"),
        ("kinematic", "tof"), ("elastic_dspacing", "tof"), ("elastic_dspacing", "wavelength"),
        ("elastic_energy", "tof"), ("elastic_Q", "tof"), ("elastic_Q_vec", "tof"), ("elastic_hkl", "tof"),
        ("elastic_wavelength", "tof"), ("elastic_wavelength", "energy"), ("direct_inelastic", "tof"),
        ("indirect_inelastic", "tof"))},
    "conversion_graph(tof,dspacing)": lambda: _mod("scippneutron").conversion_graph("tof", "dspacing", True, "elastic"),
    "conversion_graph(tof,Ltotal,noscatter)": lambda: _mod("scippneutron").conversion_graph("tof", "Ltotal", False, "elastic"),
    "conversion_graph(tof,energy_transfer)": lambda: _mod("scippneutron").conversion_graph("tof", "energy_transfer", True, "direct_inelastic"),
    **{f"Atom.for_isotope({n})": (lambda n=n: _mod("scippneutron.atoms").Atom.for_isotope(n)) for n in ("H", "2H", "V", "51V", "Si")},
    **{f"ScatteringParams.for_isotope({n})": (lambda n=n: _mod("scippneutron.atoms").ScatteringParams.for_isotope(n))
       for n in ("H", "2H", "V", "Cd", "Si")},
    "reference_wavelength": lambda: _mod("scippneutron.atoms").reference_wavelength(),
    **{f"model.{n}": _model(n, p) for n, p in (("gaussian", "peak_"), ("lorentzian", ""), ("pseudo_voigt", "pv_"),
                                               ("linear", "bkg_"), ("quadratic", "q_"))},
    "Cylinder": _cyl,
    "Material(V)": _material("V"),
    "Material(Cd)": _material("Cd"),
    "CIF(a)": _cif("a"),
    "CIF(b)": _cif("b"),
    "cif.Block": _cif_block,
    "FrameSequence.from_source_pulse": _frameseq,
}


def _cg(o, t, sct, mode):
    return lambda: _mod("scippneutron").conversion_graph(o, t, sct, mode)


for _o in ("tof", "wavelength", "energy", "Q"):
    for _t in ("wavelength", "dspacing", "energy", "Q", "two_theta", "L1", "L2", "Ltotal", "incident_beam",
               "scattered_beam", "energy_transfer", "hkl_vec"):
        for _s in (True, False):
            for _m in ("elastic", "direct_inelastic", "indirect_inelastic"):
                if _m != "elastic" and (_o != "tof" or _t != "energy_transfer" or not _s):
                    continue
                if _m == "elastic" and _t == "energy_transfer":
                    continue
                FACTORIES[f"conversion_graph({_o},{_t},{_s},{_m})"] = _cg(_o, _t, _s, _m)


def _person(name, role=None, corr=False):
    from scippneutron import metadata as md

    return md.Person(name=name, role=role, corresponding=corr)


def _powder():
    import scipp as sc

    return sc.DataArray(sc.array(dims=["tof"], values=[1.0, 2.0], variances=[0.1, 0.2]),
                        coords={"tof": sc.array(dims=["tof"], values=[10.0, 20.0], unit="us")})


def _chopper():
    import scipp as sc
    from scippneutron.tof.chopper_cascade import Chopper

    return Chopper(distance=sc.scalar(8.0, unit="m"),
                   time_open=sc.array(dims=["cutout"], values=[4.0e-3, 20.0e-3], unit="s"),
                   time_close=sc.array(dims=["cutout"], values=[9.0e-3, 26.0e-3], unit="s"))


def _sv(v, unit):
    import scipp as sc

    return sc.scalar(v, unit=unit)


# derive: key -> (applicable-to predicate on factory key, function(handle_obj, others) -> new obj)
DERIVES = {
    "atom.atomic_weight": ("Atom.", lambda h: h.atomic_weight),
    "atom.atomic_mass": ("Atom.", lambda h: h.atomic_mass),
    **{f"sp.{f}": ("ScatteringParams.", (lambda h, f=f: getattr(h, f))) for f in (
        "coherent_scattering_length_re", "incoherent_scattering_length_re", "coherent_scattering_cross_section",
        "incoherent_scattering_cross_section", "total_scattering_cross_section", "absorption_cross_section")},
    "model.with_prefix(x_)": ("model.", lambda h: h.with_prefix("x_")),
    "model.param_names": ("model.", lambda h: h.param_names),
    "model.param_bounds": ("model.", lambda h: h.param_bounds),
    "model.__add__(linear)": ("model.", lambda h: h + _model("linear", "zz_")()),
    "cyl.quadrature(cheap)": ("Cylinder", lambda h: h.quadrature("cheap")),
    "cyl.quadrature(medium)": ("Cylinder", lambda h: h.quadrature("medium")),
    "cyl.center": ("Cylinder", lambda h: h.center),
    "cyl.volume": ("Cylinder", lambda h: h.volume),
    "material.attenuation(1.8A)": ("Material", lambda h: h.attenuation_coefficient(_sv(1.8, "angstrom"))),
    "cif.copy": ("CIF(", lambda h: h.copy()),
    "cif.with_reducers": ("CIF(", lambda h: h.with_reducers("prog 1.0")),
    "cif.with_authors": ("CIF(", lambda h: h.with_authors(_person("A B", "lead", True), _person("C D"))),
    "cif.with_beamline": ("CIF(", lambda h: h.with_beamline(_mod("scippneutron.metadata").Beamline(name="BL", facility="ESS"))),
    "cif.with_powder": ("CIF(", lambda h: h.with_reduced_powder_data(_powder())),
    "block.copy": ("cif.Block", lambda h: h.copy()),
    "frames.propagate_to(10m)": ("FrameSequence", lambda h: h.propagate_to(_sv(10.0, "m"))),
    "frames.chop": ("FrameSequence", lambda h: h.chop([_chopper()])),
    "frames[0]": ("FrameSequence", lambda h: h[0]),
    "frames[12m]": ("FrameSequence", lambda h: h[_sv(12.0, "m")]),
}


# derivations that hand back the very object stored inside the source (attribute / item access)
ALIAS_DERIVES = {k for k in DERIVES if k.startswith("sp.")} | {"frames[0]"}


def _first_var(obj):
    """Locate a Variable inside a handed-out object (for in-place mutation)."""
    import scipp as sc

    if type(obj).__name__ in ("FrameSequence", "Frame", "Subframe", "Chopper"):
        # chopper-cascade frames are values that share their parts by design (a derived sequence
        # contains the frames of its source); the statement's independence clause names graph
        # factories, model/builder combinators and table lookups, not these
        return None
    if isinstance(obj, sc.Variable):
        return obj
    if isinstance(obj, tuple | list):
        for x in obj:
            v = _first_var(x)
            if v is not None:
                return v
    if isinstance(obj, dict):
        for x in obj.values():
            v = _first_var(x)
            if v is not None:
                return v
    d = getattr(obj, "__dict__", None)
    if d:
        for name, x in d.items():
            if name.startswith("_"):
                continue  # only what a caller can reach by public means
            v = _first_var(x)
            if v is not None:
                return v
    return None


def _mut_var_imul(obj):
    v = _first_var(obj)
    if v is None or v.dtype not in ("float64", "float32"):
        raise _NotApplicable
    v *= 2.0


def _mut_var_nan(obj):
    v = _first_var(obj)
    if v is None or v.dtype not in ("float64", "float32"):
        raise _NotApplicable
    if v.ndim == 0:
        v.value = np.nan
    else:
        v.values[...] = np.nan


def _mut_var_unit(obj):
    v = _first_var(obj)
    if v is None:
        raise _NotApplicable
    v.unit = "kg"


def _mut_dict_clear(obj):
    if not isinstance(obj, dict):
        raise _NotApplicable
    obj.clear()


def _mut_dict_set(obj):
    if not isinstance(obj, dict) or not obj:
        raise _NotApplicable
    k = sorted(obj, key=repr)[0]
    obj[k] = None
    obj["__injected__"] = len


def _mut_dict_pop(obj):
    if not isinstance(obj, dict) or not obj:
        raise _NotApplicable
    obj.pop(sorted(obj, key=repr)[-1])


def _mut_set(obj):
    if not isinstance(obj, set):
        raise _NotApplicable
    obj.add("evil")
    obj.discard(sorted(obj)[0])


def _mut_cif_comment(obj):
    if type(obj).__name__ != "CIF":
        raise _NotApplicable
    obj.comment = "changed comment"
    obj.name = "changed"


def _mut_block_add(obj):
    if type(obj).__name__ != "Block":
        raise _NotApplicable
    obj.add({"evil.tag": 666}, comment="added")
    obj.comment = "block comment changed"


def _mut_frames_list(obj):
    fr = getattr(obj, "frames", None)
    if not isinstance(fr, list):
        raise _NotApplicable
    fr.append(fr[0])


class _NotApplicable(Exception):
    pass


MUTATIONS = {
    "var*=2": _mut_var_imul, "var[...]=nan": _mut_var_nan, "var.unit=kg": _mut_var_unit,
    "dict.clear": _mut_dict_clear, "dict[k]=None": _mut_dict_set, "dict.pop": _mut_dict_pop,
    "set.add/discard": _mut_set, "cif.comment/name=": _mut_cif_comment, "block.add": _mut_block_add,
}

# method calls on handles (results compared; the call is part of the handle's lineage)
HCALLS = {
    "model(x)": ("model.", lambda h: _call_model(h)),
    "model.guess": ("model.", lambda h: _guess_model(h)),
    "cyl.beam_intersection": ("Cylinder", lambda h: h.beam_intersection(
        _mod("scipp").vectors(dims=["p"], values=[[0.0, 0.0, -5.0], [0.2, 0.1, -5.0]], unit="mm"),
        _mod("scipp").vector([0.0, 0.0, 1.0]))),
    "material.attenuation(arr)": ("Material(V)", lambda h: h.attenuation_coefficient(
        _mod("scipp").scalar(2.5, unit="angstrom"))),
    "cif.save": ("CIF(", lambda h: _cif_save(h)),
    "cif.save_cif(comment)": ("CIF(", lambda h: _cif_save_wrapper(h, "one-off comment")),
    "cif.save_cif()": ("CIF(", lambda h: _cif_save_wrapper(h, "")),
    "block.save_cif": ("cif.Block", lambda h: _cif_save_wrapper(h, "blk")),
    "block.write": ("cif.Block", lambda h: _block_write(h)),
    "frames.bounds": ("frames", lambda h: h.bounds() if hasattr(h, "bounds") else h[0].bounds()),
    "graph.use": ("graph.beamline.beamline(True)", lambda h: _use_graph(h)),
}


def _call_model(m):
    import scipp as sc

    x = sc.linspace("x", 0.0, 10.0, 7, unit="angstrom")
    vals = {"amplitude": sc.scalar(3.0, unit="counts*angstrom"), "loc": sc.scalar(5.0, unit="angstrom"),
            "scale": sc.scalar(1.0, unit="angstrom"), "fraction": sc.scalar(0.3),
            "a0": sc.scalar(1.0, unit="counts"), "a1": sc.scalar(0.1, unit="counts/angstrom"),
            "a2": sc.scalar(0.01, unit="counts/angstrom**2")}
    params = {n: vals[n[len(m.prefix):]] for n in m.param_names if n[len(m.prefix):] in vals}
    if set(params) != set(m.param_names):  # composite: strip sub-prefixes
        params = {}
        for n in m.param_names:
            base = n.split("_")[-1]
            params[n] = vals[base]
    return m(x, **params)


def _guess_model(m):
    import scipp as sc

    x = sc.linspace("x", 0.0, 10.0, 21, unit="angstrom")
    y = sc.array(dims=["x"], values=np.exp(-((np.linspace(0, 10, 21) - 5.0) ** 2)) + 0.1, unit="counts")
    return m.guess(sc.DataArray(y, coords={"x": x}))


def _canon_cif_text(text):
    from .. import ref_cif

    doc = ref_cif.parse(text)
    out = []
    for b in doc["blocks"]:
        items = []
        for it in b["items"]:
            if it[0] == "loop" and it[1] and it[1][0].startswith("_audit_conform"):
                items.append(["loop", it[1], sorted(it[2])])
            else:
                items.append(list(it[:3]))
        out.append([b["name"], items])
    return [out, doc["comments"]]


def _cif_save(h):
    s = io.StringIO()
    h.save(s)
    return _canon_cif_text(s.getvalue())


def _cif_save_wrapper(h, comment):
    from scippneutron.io import cif

    s = io.StringIO()
    cif.save_cif(s, h, comment=comment)
    return _canon_cif_text(s.getvalue())


def _block_write(h):
    s = io.StringIO()
    h.write(s)
    return _canon_cif_text(s.getvalue())


def _use_graph(g):
    import scipp as sc

    da = sc.DataArray(sc.ones(sizes={"spectrum": 2}),
                      coords={"position": sc.vectors(dims=["spectrum"], values=[[0.1, 0, 3.0], [0.4, 0.1, 3.5]], unit="m"),
                              "source_position": sc.vector([0.0, 0.0, -20.0], unit="m"),
                              "sample_position": sc.vector([0.0, 0.0, 0.0], unit="m")})
    return da.transform_coords(["two_theta", "Ltotal"], graph=g)


# =============================================================================
# generation


def _applicable(table, fkey):
    return [k for k, (pred, _) in table.items() if fkey is not None and fkey.startswith(pred)]


def _gen_call(rng, pool_kinds):
    key = rng.choice(sorted(CALLS))
    _, params = CALLS[key][0], CALLS[key][1]
    args = {}
    dim_shape = None
    first_dim = None
    for name, kind in params.items():
        if name == "$data":
            args[name] = {"data": kind, "form": gen_form(rng, "time")}
            continue
        # reuse an object of the same kind from the pool (callers share arguments)
        same = [j for j, k in enumerate(pool_kinds) if k == kind]
        if same and rng.random() < 0.35:
            args[name] = {"ref": rng.choice(same)}
            continue
        form = gen_form(rng, kind)
        if kind in ("vec_beam", "vec_beam0", "gravity") and len(params) > 1:
            form["shape"] = "0d"  # one incident beam / gravity for all detectors
        elif dim_shape is None:
            dim_shape = (form["shape"], form["n"])
        else:
            # other arguments: scalar or same layout as the first (so shapes broadcast)
            if key not in SAME_LAYOUT and (rng.random() < 0.5 or dim_shape[0] in ("binned", "2d")):
                form["shape"] = "0d"
            else:
                form["shape"], form["n"] = dim_shape
                if key in SAME_LAYOUT or rng.random() < 0.6:
                    form["dim"] = first_dim
        if first_dim is None:
            first_dim = form.get("dim")
        if kind in VEC_KINDS and form["shape"] in ("2d", "binned"):
            form["shape"] = "1d"
        args[name] = {"kind": kind, "form": form}
    return {"k": "call", "f": key, "args": args}


EXPENSIVE = {"peaks.fit_peaks", "absorption.compute_transmission_map"}
_GRID = []
GRID_RUNS = 64


def _grid_cases():
    """The aliasing grid, enumerated: every catalogued call x every argument x every unit the
    workload knows for that argument's kind x {0-d, 1-d, view, binned} x {float64, float32},
    the remaining arguments scalar in their canonical unit (one-op histories)."""
    if _GRID:
        return _GRID
    n = 0
    for key in sorted(CALLS):
        params = CALLS[key][1]
        for name, kind in params.items():
            if name == "$data":
                for shape in ("1d", "binned"):
                    for unit in ("target", "other"):
                        n += 1
                        _GRID.append({"k": "call", "f": key, "c": 0, "args": {"$data": {
                            "data": kind, "form": {"unit": unit, "dtype": "float64", "shape": shape, "seed": n, "n": 5}}}})
                continue
            if kind in VEC_KINDS:
                units = [("target", 0), ("other", 0)]
                shapes = ["0d", "1d", "view"]
                dtypes = ["float64"]
            else:
                units = [("target", 0)] + [("other", j) for j in range(len(KINDS[kind]["others"]))]
                shapes = ["0d", "1d", "view", "binned"]
                dtypes = ["float64", "float32"]
            fixed = KINDS.get(kind, {}).get("fixed")
            choices = range(len(fixed)) if fixed and isinstance(fixed[0], list) else [0]
            for (uc, uj), choice in ((u_, c_) for u_ in units for c_ in choices):
                for shape in (shapes if len(choices) == 1 else ["0d"]):
                    for dt in dtypes:
                        n += 1
                        args = {}
                        for other, okind in params.items():
                            if other == name:
                                # seed chosen so that seed % len(others) selects unit uj
                                args[other] = {"kind": kind, "form": {
                                    "unit": uc, "dtype": dt, "shape": shape, "seed": 7 * 60 + uj, "n": 4,
                                    "dim": "event", "choice": choice}}
                            else:
                                oshape = "0d"
                                odim = "det"
                                if key in SAME_LAYOUT:
                                    oshape, odim = (shape if shape != "binned" else "1d"), "event"
                                elif okind == "vec_pos" and shape in ("1d", "view") and n % 2:
                                    oshape = "1d"  # a second, independent dimension (broadcast)
                                args[other] = {"kind": okind, "form": {
                                    "unit": "target", "dtype": "float64", "shape": oshape, "seed": 11, "n": 3,
                                    "dim": odim}}
                        _GRID.append({"k": "call", "f": key, "c": 0, "args": args})
    return _GRID


_INDEP = []
INDEP_RUNS = 48
PROBES = ["conversion_graph(tof,wavelength,True,elastic)", "graph.beamline.beamline(True)", "graph.tof.elastic(tof)",
          "conversion_graph(tof,energy_transfer,True,direct_inelastic)", "graph.beamline.Ltotal(True)",
          "ScatteringParams.for_isotope(V)", "Material(V)", "conversion_graph(tof,Ltotal,False,elastic)"]


def _independence_cases():
    """Factory independence sweep: for every factory F and every mutation M: obtain F, mutate the
    result, obtain F again, then obtain two probe factories (cross-factory sharing).  Mutations
    that do not apply to F's result type are skipped at run time."""
    if _INDEP:
        return _INDEP
    j = 0
    for f in sorted(FACTORIES):
        for m in sorted(MUTATIONS):
            j += 1
            p1, p2 = PROBES[j % len(PROBES)], PROBES[(j + 3) % len(PROBES)]
            base = 10 * j
            _INDEP.extend([
                {"k": "obtain", "h": base + 1, "f": f, "c": 0},
                {"k": "mutate", "h": base + 1, "how": m, "c": 0},
                {"k": "obtain", "h": base + 2, "f": f, "c": 1},
                {"k": "obtain", "h": base + 3, "f": p1, "c": 1},
                {"k": "obtain", "h": base + 4, "f": p2, "c": 1},
            ])
    return _INDEP


_REENTRY = []
REENTRY_RUNS = 16


def _reentrancy_cases():
    """Re-entrancy sweep: for every catalogued call, a second caller calls the SAME function
    (other argument values / settings variant) at several points in the middle of the first
    caller's call; the first call's result must equal the call alone."""
    if _REENTRY:
        return _REENTRY
    import random

    for key in sorted(CALLS):
        for rep in range(3):
            r = random.Random(f"reentry/{key}/{rep}")
            host = _gen_call(r, [])
            while host["f"] != key:
                host = _gen_call(r, [])
            for a in host["args"].values():
                if "form" in a:
                    a["form"]["choice"] = rep
            pts = []
            for at in (2, 9, 30, 90, 250, 700, 2000):
                nested = copy.deepcopy(host)
                for a in nested["args"].values():
                    if "form" in a:
                        a["form"]["seed"] = r.randrange(1 << 30)
                        a["form"]["choice"] = rep + 1 + len(pts)
                nested["nested_fresh"] = True
                nested["c"] = 1
                pts.append({"at": at, "op": nested})
            host["c"] = 0
            host["preempt"] = pts
            _REENTRY.append(host)
            if rep < 2:
                # same sweep, other history: call, change an own argument in place, call again
                again = copy.deepcopy({k: v for k, v in host.items() if k != "preempt"})
                again.update(again=True, nested_fresh=True)
                _REENTRY.append(again)
    return _REENTRY


_WATCH = []
WATCH_RUNS = 8
WATCH_ORDINALS = (0, 1, 2, 3, 5, 8, 13, 21, 34, 55, 89, 144, 233, 377, 610, 987)


def _watch_cases():
    """Mid-call sweep: for every method call (HCALLS) and combinator (DERIVES) on every kind of
    handed-out object, the object the call is made on is observed at 16 points in the middle of
    the call (a second caller looking at the shared object): it must look as before the call.
    The op run at those points is an unrelated lookup; the comparison is the handle watch."""
    if _WATCH:
        return _WATCH
    j = 0
    for table, kind in ((HCALLS, "hcall"), (DERIVES, "derive")):
        for key in sorted(table):
            roots = [f for f in sorted(FACTORIES) if _applicable({key: table[key]}, f)]
            for f in roots[:2]:
                j += 1
                base = 100000 + 10 * j
                host = ({"k": "hcall", "h": base + 1, "m": key} if kind == "hcall"
                        else {"k": "derive", "h": base + 2, "src": base + 1, "f": key})
                host["c"] = 0
                host["preempt"] = [{"at": at, "op": {"k": "obtain", "h": base + 3 + n, "f": "reference_wavelength", "c": 1}}
                                   for n, at in enumerate(WATCH_ORDINALS[:6])]
                # 16 ordinals need 16 distinct nested handles: keep ids unique
                host["preempt"] = [{"at": at, "op": {"k": "obtain", "h": base * 100 + n, "f": "reference_wavelength", "c": 1}}
                                   for n, at in enumerate(WATCH_ORDINALS)]
                _WATCH.append([{"k": "obtain", "h": base + 1, "f": f, "c": 0}, host])
    return _WATCH


_CHAINS = []


def _chain_cases():
    """Combinator chains: for every kind of handed-out object and every ordered triple of its
    combinators / attribute reads (d1, d2, d3): obtain F; d1(F) (e.g. read a lazily computed
    property); d2(F) (e.g. derive with another prefix); d3(d2(F)).  Every result is compared with
    its own lineage replayed alone, so state that d1 leaves behind in F and d2 carries over shows."""
    if _CHAINS:
        return _CHAINS
    j = 0
    seen_roots = set()
    for f in sorted(FACTORIES):
        ders = _applicable(DERIVES, f)
        root_kind = tuple(ders)
        if not ders or (root_kind, f.split("(")[0]) in seen_roots:
            continue
        seen_roots.add((root_kind, f.split("(")[0]))
        chainable = [d for d in ders if d.startswith(("cif.", "model.with", "model.__add", "block.copy", "frames.prop", "frames.chop"))]
        for d1 in ders:
            for d2 in chainable:
                for d3 in ders:
                    j += 1
                    base = 5000000 + 10 * j
                    _CHAINS.append([{"k": "obtain", "h": base + 1, "f": f, "c": 0},
                                    {"k": "derive", "h": base + 2, "src": base + 1, "f": d1, "c": 0},
                                    {"k": "derive", "h": base + 3, "src": base + 1, "f": d2, "c": 1},
                                    {"k": "derive", "h": base + 4, "src": base + 3, "f": d3, "c": 1}])
    return _CHAINS


def generate(rng, tier, i):
    w0 = GRID_RUNS + REENTRY_RUNS + INDEP_RUNS
    if w0 <= i < w0 + WATCH_RUNS:
        cases = _watch_cases()
        j = i - w0
        mine = [c for n, c in enumerate(cases) if n % WATCH_RUNS == j]
        chains = [c for n, c in enumerate(_chain_cases()) if n % WATCH_RUNS == j]
        return {"callers": 2, "watch": [j, WATCH_RUNS, len(cases)], "chains": len(chains),
                "ops": copy.deepcopy([o for c in mine for o in c] + [o for c in chains for o in c])}
    if GRID_RUNS + REENTRY_RUNS <= i < GRID_RUNS + REENTRY_RUNS + INDEP_RUNS:
        cases = _independence_cases()
        j = i - GRID_RUNS - REENTRY_RUNS
        n5 = len(cases) // 5
        per = (n5 + INDEP_RUNS - 1) // INDEP_RUNS
        return {"callers": 2, "independence": [j * per, min(n5, (j + 1) * per), n5],
                "ops": copy.deepcopy(cases[5 * j * per:5 * (j + 1) * per])}
    if GRID_RUNS <= i < GRID_RUNS + REENTRY_RUNS:
        cases = _reentrancy_cases()
        j = i - GRID_RUNS
        per = (len(cases) + REENTRY_RUNS - 1) // REENTRY_RUNS
        return {"callers": 2, "reentry": [j * per, min(len(cases), (j + 1) * per), len(cases)],
                "ops": copy.deepcopy(cases[j * per:(j + 1) * per])}
    if i < GRID_RUNS:
        cases = _grid_cases()
        per = (len(cases) + GRID_RUNS - 1) // GRID_RUNS
        return {"callers": 1, "grid": [i * per, min(len(cases), (i + 1) * per), len(cases)],
                "ops": copy.deepcopy(cases[i * per:(i + 1) * per])}
    callers = rng.choice([1, 2, 2, 3])
    n_ops = rng.randrange(2, 13)
    ops = []
    pool_kinds: list[str] = []
    handles: dict[int, str] = {}  # handle id -> factory/derive key that produced it
    hroot: dict[int, str] = {}
    nh = 0
    fkeys = sorted(FACTORIES)
    hot = rng.sample(fkeys, 3)  # callers keep coming back to the same lookups
    for _ in range(n_ops):
        c = rng.randrange(callers)
        r = rng.random()
        op = None
        if r < 0.30 or not handles and r < 0.45:
            op = _gen_call(rng, pool_kinds)
            if rng.random() < 0.15 and not any("ref" in a for a in op["args"].values()):
                # call, change an own argument in place, call again with the same objects
                # (unpooled arguments: the change is the caller's, not the library's)
                op["again"] = True
                op["nested_fresh"] = True
            for a in op["args"].values():
                if op.get("again"):
                    break
                if "kind" in a:
                    pool_kinds.append(a["kind"])
                elif "data" in a:
                    pool_kinds.append("$" + a["data"])  # keeps pool indices aligned with the executor
        elif r < 0.55 or not handles:
            nh += 1
            f = rng.choice(hot) if rng.random() < 0.6 else rng.choice(fkeys)
            op = {"k": "obtain", "h": nh, "f": f}
            handles[nh] = f
            hroot[nh] = f
        else:
            h = rng.choice(sorted(handles))
            key = handles[h]
            r2 = rng.random()
            der = _applicable(DERIVES, hroot[h]) if key == hroot[h] or key.startswith(("cif.", "model.with", "model.__add", "block.copy", "frames.prop", "frames.chop")) else []
            hc = _applicable(HCALLS, key if key in FACTORIES else hroot[h])
            if r2 < 0.35 and der:
                nh += 1
                d = rng.choice(der)
                op = {"k": "derive", "h": nh, "src": h, "f": d}
                handles[nh] = d
                hroot[nh] = hroot[h]
            elif r2 < 0.65:
                op = {"k": "mutate", "h": h, "how": rng.choice(sorted(MUTATIONS))}
            elif r2 < 0.8 and hc:
                op = {"k": "hcall", "h": h, "m": rng.choice(hc)}
            else:
                op = {"k": "observe", "h": h}
        op["c"] = c
        if op["k"] in ("call", "hcall", "obtain", "derive") and not op.get("again") and rng.random() < 0.07:
            # mostly early in the call; sometimes deep inside (table scans run for thousands of lines)
            op["interrupt_at"] = int(10 ** rng.uniform(0, 2.6 if rng.random() < 0.6 else 4.3)) - 1
        ops.append(op)
    # pre-emption: run a later-style op of another caller inside a call
    if callers > 1:
        for op in ops:
            if op["k"] in ("call", "hcall", "obtain", "derive") and "interrupt_at" not in op and rng.random() < 0.3:
                pts = []
                for _ in range(rng.randrange(1, 4)):
                    at = int(10 ** rng.uniform(0, 2.3)) - 1
                    r3 = rng.random()
                    if r3 < 0.35:
                        # another caller calls into the library (same function as the host, or any)
                        nested = _gen_call(rng, [])
                        while nested["f"] in EXPENSIVE:
                            nested = _gen_call(rng, [])
                        if op["k"] == "call" and rng.random() < 0.6 and (
                                op["f"] not in EXPENSIVE or op["f"] == "peaks.fit_peaks"):
                            nested = copy.deepcopy({k: v for k, v in op.items() if k != "preempt"})
                            for a in nested["args"].values():
                                if "ref" in a:
                                    a.clear()
                                    a.update({"skip": True})
                                elif "form" in a:
                                    a["form"]["seed"] = rng.randrange(1 << 30)
                                    a["form"]["choice"] = rng.randrange(8)
                            if any("skip" in a for a in nested["args"].values()):
                                nested = _gen_call(rng, [])
                                while nested["f"] in EXPENSIVE:
                                    nested = _gen_call(rng, [])
                        nested["nested_fresh"] = True
                    elif handles and r3 < 0.8:
                        h = rng.choice(sorted(handles))
                        nested = rng.choice([{"k": "mutate", "h": h, "how": rng.choice(sorted(MUTATIONS))},
                                             {"k": "observe", "h": h}])
                    else:
                        nested = {"k": "obtain", "h": 1000 + len(pts) + 10 * ops.index(op), "f": rng.choice(hot)}
                    nested["c"] = (op["c"] + 1) % callers
                    pts.append({"at": at, "op": nested})
                op["preempt"] = pts
    return {"callers": callers, "ops": ops}


# =============================================================================
# execution


class _World:
    """State of one execution (the history, or a lineage replayed alone)."""

    def __init__(self):
        self.pool: list = []  # (obj, parent, recipe)
        self.handles: dict[int, object] = {}
        self.after_build = None


def _resolve_recipe(scn_ops, ref_index):
    """Recipe of pool object #ref_index (pool order = order of creation over the ops)."""
    j = 0
    for op in scn_ops:
        if op["k"] != "call" or op.get("nested_fresh"):
            continue  # unpooled arguments (the op brings its own) do not occupy pool slots
        for a in op["args"].values():
            if "kind" in a or "data" in a:
                if j == ref_index:
                    return a
                j += 1
    raise core.HarnessError(f"dangling pool ref {ref_index}")


def _materialise(world, scn_ops, spec, fresh):
    if "ref" in spec:
        if fresh:
            return _materialise(world, scn_ops, _resolve_recipe(scn_ops, spec["ref"]), True)
        if spec["ref"] < len(world.pool):
            return world.pool[spec["ref"]][0]
        return _materialise(world, scn_ops, _resolve_recipe(scn_ops, spec["ref"]), True)
    if "data" in spec:
        obj, parent = build_data(spec["data"], spec["form"])
    else:
        obj, parent = build_arg(spec["kind"].replace("vec_beam0", "vec_beam0"), spec["form"])
    if not fresh:
        world.pool.append((obj, parent, spec))
    return obj


VEC_ORTHO = True


def _again_after_inplace(fn, kwargs, first):
    """History inside one op: the call has been made; now the caller changes one of ITS OWN
    argument variables in place and makes the same call with the very same objects.  The answer
    must be the one for the values the objects hold now (= the call on fresh copies of them);
    anything keyed on the identity of an argument would return the first answer again."""
    import scipp as sc

    target = None
    for name, v in kwargs.items():
        if isinstance(v, sc.Variable) and v.bins is None and v.dtype in ("float64", "float32"):
            target = name
            break
    if target is None:
        return canon.canon(first)
    _, exc = core.capture(lambda: kwargs[target].__imul__(1.25))
    if exc is not None:
        return canon.canon(first)
    second, e2 = core.capture(fn, **kwargs)
    copies = {k: (v.copy() if hasattr(v, "copy") else v) for k, v in kwargs.items()}
    third, e3 = core.capture(fn, **copies)
    a = ["exc", e2.name] if e2 else canon.canon(second)
    b = ["exc", e3.name] if e3 else canon.canon(third)
    if a != b:
        return ["stale_after_inplace", target, core.jdump(a)[:160], core.jdump(b)[:160]]
    return ["again", canon.canon(first), a]


def _exec_op(world, scn_ops, op, fresh=False, wrap=None):
    """Execute one op in ``world``.  Returns canonical result (or ['exc', name]).  ``wrap`` (used
    for interrupted calls) runs only the library call itself under the scheduler: building the
    arguments is the caller's own business and always completes (pool indices stay aligned)."""
    k = op["k"]
    if wrap is not None and k != "call":
        return wrap(lambda: _exec_op(world, scn_ops, op, fresh))
    if k == "call":
        fn = CALLS[op["f"]][0]()
        kwargs = {}
        fresh = fresh or bool(op.get("nested_fresh"))  # nested calls bring their own, unpooled args
        for name, spec in op["args"].items():
            kwargs["data" if name == "$data" else name] = _materialise(world, scn_ops, spec, fresh)
        if world.after_build is not None:
            world.after_build()  # snapshot newly built arguments BEFORE the library sees them
        if wrap is not None:
            res, exc = core.capture(lambda: wrap(lambda: fn(**kwargs)))
        else:
            res, exc = core.capture(fn, **kwargs)
        if op.get("again") and exc is None:
            return _again_after_inplace(fn, kwargs, res)
        return ["exc", exc.name] if exc else canon.canon(res)
    if k == "obtain":
        res, exc = core.capture(FACTORIES[op["f"]])
        if exc:
            return ["exc", exc.name]
        world.handles[op["h"]] = res
        return canon.canon(res)
    if k == "derive":
        src = world.handles.get(op["src"])
        if src is None:
            return ["skipped"]
        res, exc = core.capture(DERIVES[op["f"]][1], src)
        if exc:
            return ["exc", exc.name]
        world.handles[op["h"]] = res
        return canon.canon(res)
    if k == "mutate":
        h = world.handles.get(op["h"])
        if h is None:
            return ["skipped"]
        try:
            _, exc = core.capture(MUTATIONS[op["how"]], h)
        except _NotApplicable:
            return ["n/a"]
        if exc and exc.name == "_NotApplicable":
            return ["n/a"]
        return ["mutated", exc.name if exc else None]
    if k == "hcall":
        h = world.handles.get(op["h"])
        if h is None:
            return ["skipped"]
        res, exc = core.capture(HCALLS[op["m"]][1], h)
        return ["exc", exc.name] if exc else canon.canon(res)
    if k == "observe":
        h = world.handles.get(op["h"])
        if h is None:
            return ["skipped"]
        return canon.canon(h)
    raise core.HarnessError(f"unknown op kind {k}")


def _flat_ops(ops):
    """History order including nested (pre-empting) ops: a nested op happens during its
    host, i.e. before the host's result exists; for lineage purposes it precedes the host."""
    out = []
    for j, op in enumerate(ops):
        for p in op.get("preempt", []):
            out.append((j, True, p["op"]))
        out.append((j, False, op))
    return out


def _lineage(flat, idx):
    """Indices into ``flat`` of the ops that construct the handle op ``idx`` acts on."""
    _, _, op = flat[idx]
    if op["k"] == "call":
        return [idx]
    target = op["h"] if op["k"] in ("obtain", "derive") else op["h"]
    # ancestors with the time (flat index) at which the next descendant was derived
    chain = []  # (handle, until_idx)
    h, until = target, idx
    while True:
        chain.append((h, until))
        created = next((t for t in range(until + 1) if flat[t][2].get("h") == h
                        and flat[t][2]["k"] in ("obtain", "derive")), None)
        if created is None:
            break
        cop = flat[created][2]
        if cop["k"] == "derive":
            h, until = cop["src"], created
        else:
            break
    keep = set()
    for h, until in chain:
        # plain attribute / item access hands back the very object stored in the source: source
        # and alias are one object, so whatever a caller does to either (before ``until``) belongs
        # to the lineage of both
        group = {h}
        changed = True
        while changed:
            changed = False
            for t in range(until + 1):
                o = flat[t][2]
                if o["k"] == "derive" and o["f"] in ALIAS_DERIVES:
                    if o["src"] in group and o["h"] not in group:
                        group.add(o["h"])
                        changed = True
                    elif o["h"] in group and o["src"] not in group:
                        group.add(o["src"])
                        changed = True
        for t in range(until + 1):
            o = flat[t][2]
            if o.get("h") in group and o["k"] in ("obtain", "derive", "mutate", "hcall"):
                keep.add(t)
        # creation chains of the other group members
        for g in group - {h}:
            t0 = next((t for t in range(until + 1) if flat[t][2].get("h") == g
                       and flat[t][2]["k"] in ("obtain", "derive")), None)
            while t0 is not None:
                keep.add(t0)
                co = flat[t0][2]
                if co["k"] != "derive":
                    break
                t0 = next((t for t in range(t0) if flat[t][2].get("h") == co["src"]
                           and flat[t][2]["k"] in ("obtain", "derive")), None)
    keep.add(idx)
    return sorted(keep)


class RefServer:
    """A child forked from the still-pristine run process.  It never executes a library
    operation itself: for every query it forks a grandchild that replays the requested ops
    (indices into the flattened op list) alone and reports the canonical digest."""

    def __init__(self, scn_ops, flat):
        self.req_r, self.req_w = os.pipe()
        self.res_r, self.res_w = os.pipe()
        self.pid = os.fork()
        if self.pid == 0:
            try:
                os.close(self.req_w)
                os.close(self.res_r)
                self._serve(scn_ops, flat)
            finally:
                os._exit(0)
        os.close(self.req_r)
        os.close(self.res_w)
        self._buf = b""

    def _serve(self, scn_ops, flat):
        f = os.fdopen(self.req_r, "rb")
        for line in f:
            idxs = json.loads(line)
            if idxs == "quit":
                return
            pid = os.fork()
            if pid == 0:
                try:
                    world = _World()
                    res = None
                    for t in idxs:
                        res = _exec_op(world, scn_ops, flat[t][2], fresh=True)
                    out = core.h64(core.jdump(res)) + " " + json.dumps(res[:2] if isinstance(res, list) else res)[:200]
                except BaseException as e:  # noqa: BLE001
                    out = "HARNESS " + repr(e)[:300]
                try:
                    os.write(self.res_w, out.replace("\n", " ").encode() + b"\n")
                finally:
                    os._exit(0)
            _, st = os.waitpid(pid, 0)
            if st != 0:
                os.write(self.res_w, f"HARNESS grandchild status {st}\n".encode())

    def query(self, idxs):
        os.write(self.req_w, (json.dumps(idxs) + "\n").encode())
        while b"\n" not in self._buf:
            b = os.read(self.res_r, 65536)
            if not b:
                raise core.HarnessError("reference server died")
            self._buf += b
        line, _, self._buf = self._buf.partition(b"\n")
        if line.startswith(b"HARNESS"):
            raise core.HarnessError(f"reference replay failed: {line[:300]!r}")
        d, _, brief = line.partition(b" ")
        return d.decode(), brief.decode(errors="replace")

    def close(self):
        try:
            os.write(self.req_w, b'"quit"\n')
            os.close(self.req_w)
            os.close(self.res_r)
        except OSError:
            pass
        os.waitpid(self.pid, 0)


class C09Engine(Engine):
    prop = "C09"
    level = "exploration"
    title = "Computations never modify their arguments; results do not depend on call history"
    rule = (
        "A case is one seeded history of 2-12 operations by 1-3 simulated callers over a shared "
        "pool: call(f, args) for catalogued public entry points with arguments built on the "
        "aliasing grid (already in the target unit & float64 / other unit / float32 / int64; 0-d, "
        "1-d, 2-d, slice view of a longer parent, binned buffer), arguments shared between calls; "
        "obtain(factory) for graph factories, bundled-table lookups, models, builders, shapes; "
        "derive (fields, with_prefix, __add__, param_names/bounds, copy, with_*, quadrature, "
        "propagate/chop); mutate(handle) by public means (dict clear/set/pop, Variable *=, [...]=nan, "
        ".unit=, set add, builder comment/name, block.add, list append); hcall (methods on "
        "handles) and observe; with seeded pre-emption points (sys.settrace line ordinals inside "
        "library code) at which another caller's operation runs and argument snapshots are "
        "re-checked. Oracles: O1 every pool object (and the parent of every view, the whole event "
        "buffer of binned data) is bit-identical after every op and at every pre-emption point; "
        "O2/O3 every result equals the result of the op's own lineage replayed alone in a process "
        "forked from the pristine run. Distinct = distinct scenario digest; non-trivial = the "
        "history contains a mutate or a shared argument or a taken pre-emption AND at least two "
        "results were compared with their pristine reference."
    )
    assumptions = [
        "reference = the same code run without history in a fork of the pristine process image "
        "(same hash seed, one scipp thread): only history dependence / argument mutation is judged",
        "catalogue of entry points is hand-written (dsim/engines/c09.py); coverage of it is reported, "
        "plot-only and Mantid/NeXus-file entry points are excluded",
        "handles are observed through dsim/canon.py, which for builder objects reads private "
        "attributes (read-only)",
        "exceptions compare by class; an op that is not applicable to a handle is skipped in both worlds",
    ]
    components_real = ["all of scippneutron reached by the catalogue", "scipp", "lru_caches and module tables"]
    components_stubbed = ["callers = scripted op lists, second/third caller run inline at scheduled "
                          "line ordinals", "clock and uuid pinned", "reference process = fork()"]

    def budget(self, tier):
        return 2500 if tier == "quick" else 80000

    def setup(self):
        import scippneutron  # noqa: F401
        import scippneutron.io.cif as cif

        seams.install_clock(cif)
        self._prefix = (os.path.dirname(os.path.abspath(scippneutron.__file__)) + os.sep,)
        warnings.simplefilter("ignore")
        # import everything the catalogue touches now: no lazy import may happen inside a run
        for m in ("conversion.tof", "conversion.beamline", "conversion.graph.tof", "conversion.graph.beamline",
                  "core.conversions", "atoms", "peaks", "peaks.model", "peaks._fit_peaks", "peaks._remove_peaks",
                  "absorption", "absorption.cylinder", "absorption.material", "absorption.base",
                  "tof.chopper_cascade", "io.cif", "io.xye", "metadata", "chopper", "beamline_components"):
            _mod("scippneutron." + m)
        import scipp.constants  # noqa: F401
        import scipp.spatial  # noqa: F401

    def generate(self, rng, tier, i):
        return generate(rng, tier, i)

    def extra_meta(self):
        """Public callables of the anchored modules vs. what the catalogue reaches."""
        import inspect

        mods = {"conversion.tof": None, "conversion.beamline": None, "conversion.graph.tof": None,
                "conversion.graph.beamline": None, "core.conversions": None, "beamline_components": None,
                "tof.chopper_cascade": None, "chopper.disk_chopper": None, "chopper.filtering": None,
                "absorption.base": None, "absorption.cylinder": None, "absorption.material": None,
                "peaks.model": None, "peaks._fit_peaks": None, "peaks._remove_peaks": None, "atoms": None,
                "io.xye": None, "io.cif": None}
        reached = " ".join(list(CALLS) + list(FACTORIES) + list(DERIVES) + list(HCALLS)) + " " + " ".join(
            inspect.getsource(f) for f in (_model, _deduce, _cif_lowlevel, _from_nexus, _disk_chopper, _subframe, _source_pulse, _model_call, _model_params,
                                           _transmission, _plateaus, _components, _fit_small, _fit_counts, _guess_all, _cif_ctors, _block_add, _convert,
                                           _remove_peaks_call, _xye_roundtrip, _cif_save, _cif_save_wrapper, _block_write,
                                           _use_graph, _call_model, _guess_model, _cyl, _material, _cif,
                                           _cif_block, _frameseq, _chopper))
        out = {}
        for m in mods:
            mod = _mod("scippneutron." + m)
            names = [n for n, o in vars(mod).items() if not n.startswith("_") and callable(o)
                     and getattr(o, "__module__", "") == mod.__name__]
            missing = [n for n in names if n not in reached]
            out[m] = {"public_callables": len(names), "not_reached_by_catalogue": sorted(missing)}
        return {"catalogue": {"calls": len(CALLS), "factories": len(FACTORIES), "derivations": len(DERIVES),
                              "handle_calls": len(HCALLS), "mutations": len(MUTATIONS),
                              "aliasing_grid_cases": len(_grid_cases()),
                              "reentrancy_sweep_cases": len(_reentrancy_cases()),
                              "factory_independence_cases": len(_independence_cases()) // 5},
                "module_coverage": out}

    # --------------------------------------------------------------- execute
    def _snap(self, world):
        return [core.h64(core.jdump([canon.canon(o), None if p is None else canon.canon(p)]))
                for o, p, _ in world.pool]

    def execute(self, scn, ctx, scratch):
        warnings.simplefilter("ignore")
        np.seterr(all="ignore")
        seams.CLOCK.set({"start": "2024-01-01T00:00:00+00:00", "deltas": [0.0]})
        ops = scn["ops"]
        flat = _flat_ops(ops)
        server = RefServer(ops, flat)  # forked now: pristine image
        # ---- the history ---------------------------------------------------------------
        world = _World()
        snaps: list[str] = []
        flat_index = {id(o): t for t, (_, _, o) in enumerate(flat)}
        executed: dict[int, list] = {}  # flat index -> canonical result
        order: list[int] = []  # flat indices in order of completion (= the real history)

        def check_args(where, op):
            cur = self._snap(world)
            for j, (a, b) in enumerate(zip(snaps, cur, strict=False)):
                if a != b:
                    rec = world.pool[j][2]
                    ctx.violate(
                        "arg_modified",
                        f"argument object #{j} ({rec.get('kind', rec.get('data'))}, form {rec.get('form')}) "
                        f"was modified {where} {op.get('f', op.get('m', op['k']))}",
                        kind="arg_modified", f=op.get("f", op.get("m")), arg_kind=rec.get("kind", rec.get("data")),
                        shape=(rec.get("form") or {}).get("shape"))
                    snaps[j] = b
            snaps.extend(cur[len(snaps):])

        def snap_new():
            cur = self._snap(world)
            snaps.extend(cur[len(snaps):])

        world.after_build = snap_new

        def related(host, nop):
            """Is the nested op's handle in the host's own lineage (a caller-level data race)?"""
            hs = set()
            h = host.get("h")
            if host["k"] == "derive":
                hs.add(host["src"])
            hs.add(h)
            changed = True
            while changed:
                changed = False
                for _, _, o in flat:
                    if o["k"] == "derive" and o["h"] in hs and o["src"] not in hs:
                        hs.add(o["src"])
                        changed = True
            hs.discard(None)
            return nop.get("h") in hs or nop.get("src") in hs

        def run(op, nested=False):
            ctx.caller = f"c{op.get('c', 0)}"
            ctx.step(f"{ctx.caller}:{op['k']}" + ("+P" if op.get("preempt") else "") + ("(nested)" if nested else ""))
            t = flat_index[id(op)]
            if op.get("interrupt_at") is not None and not nested:
                # the caller is interrupted (Ctrl-C, cancelled task) in the middle of this call: the
                # call never completes (it is not part of any lineage), its arguments must be as
                # before, and everything that runs later must be as if it had never been started
                ctx.fault_configured("interrupt_in_call")
                pre = seams.Preemptor(self._prefix, {op["interrupt_at"]: seams.interrupt_now})
                try:
                    _exec_op(world, ops, op, wrap=pre.run)
                    ctx.probe("interruption_point_not_reached")
                    interrupted = False
                except seams.SimInterrupt:
                    interrupted = True
                if interrupted:
                    ctx.fault_fired("interrupt_in_call")
                    ctx.log("interrupted", op["k"], op.get("f", op.get("m")), op["interrupt_at"])
                    if op.get("h") is not None and op["k"] in ("obtain", "derive"):
                        world.handles.pop(op["h"], None)
                    check_args("by the interrupted", op)
                    return
                # the point was never reached: the call completed under tracing; run it normally below
                # is not possible (it has run): record its result through the normal path
                ctx.count("interrupt_not_reached_calls")
                if op.get("h") is not None and op["k"] in ("obtain", "derive"):
                    world.handles.pop(op["h"], None)
                check_args("by", op)
                return
            if op.get("preempt") and not nested:
                points = {}
                for p in op["preempt"]:
                    if not related(op, p["op"]):
                        points.setdefault(p["at"], p["op"])
                ctx.fault_configured("preempt", len(points))

                # the object a (logically read-only) method or combinator is called on is an
                # argument too: it must look the same to any other caller at every instant of the call
                hkey = op.get("src") if op["k"] == "derive" else (op.get("h") if op["k"] == "hcall" else None)
                hobj = world.handles.get(hkey) if hkey is not None else None
                hbefore = None
                if hobj is not None:
                    try:
                        hbefore = canon.digest(hobj)
                    except canon.Uncanonical:
                        hbefore = None

                def watch_handle(frame):
                    if hbefore is None:
                        return
                    ctx.count("handle_watched_mid_call")
                    if canon.digest(hobj) != hbefore:
                        ctx.violate(
                            "arg_modified",
                            f"the object {op.get('f', op.get('m'))} is called on (handle {hkey}) looks different at a "
                            f"pre-emption point inside the call ({frame.f_code.co_name}:{frame.f_lineno}) than before the call",
                            kind="arg_modified_during_call", f=op.get("f", op.get("m")))

                def mk(nop):
                    def cb(frame):
                        saved = ctx.caller
                        ctx.log("preempt", frame.f_code.co_name)
                        check_args("at a pre-emption point inside", op)
                        watch_handle(frame)
                        run(nop, nested=True)
                        ctx.caller = saved
                    return cb

                pre = seams.Preemptor(self._prefix, {k: mk(v) for k, v in points.items()})
                res = pre.run(lambda: _exec_op(world, ops, op))
                ctx.fault_fired("preempt", len(pre.taken))
                for s_ in pre.sites:
                    ctx.site("preempt@" + s_)
                ctx.count("line_events", pre.ordinal)
            else:
                res = _exec_op(world, ops, op)
            executed[t] = res
            order.append(t)
            if isinstance(res, list) and res and res[0] == "stale_after_inplace":
                ctx.violate("history_dependence",
                            f"{op.get('f')}: after the caller changed its own argument {res[1]!r} in place, calling "
                            f"again with the same objects gives {res[2]} but the same call on fresh copies of "
                            f"the arguments gives {res[3]}", kind="stale_after_inplace", f=op.get("f"))
            if isinstance(res, list) and res and res[0] == "again":
                ctx.probe("caller_changed_own_argument_then_called_again")
            d = core.h64(core.jdump(res))
            ctx.log("op", op["k"], op.get("f", op.get("m", op.get("how"))), d)
            ctx.count("op_" + op["k"])
            if op["k"] == "mutate" and res and res[0] == "mutated":
                ctx.probe("mutation_applied")
            if op["k"] == "call" and any("ref" in a for a in op["args"].values()):
                ctx.probe("shared_argument")
            check_args("by", op)

        try:
            for op in ops:
                run(op)
            ctx.caller = "-"
            # ---- references: every executed op's own lineage, replayed alone ---------------
            # ops that did not run (pre-emption point never reached) are not part of any lineage
            done = list(order)
            eff = [flat[t] for t in done]
            pos = {t: j for j, t in enumerate(done)}
            for t in done:
                op = flat[t][2]
                res = executed[t]
                if op["k"] not in ("call", "obtain", "derive", "hcall", "observe") or res == ["skipped"]:
                    continue
                lin = [done[j] for j in _lineage(eff, pos[t])]
                rd, brief = server.query(lin)
                ctx.count("reference_forks")
                ctx.count("results_compared")
                d = core.h64(core.jdump(res))
                if rd != d:
                    what = op.get("f", op.get("m", "observe"))
                    ctx.violate(
                        "history_dependence",
                        f"{op['k']} {what} (handle {op.get('h')}) gives a different result in this history "
                        f"than when its own lineage is replayed alone in a pristine process "
                        f"(here {json.dumps(res[:2] if isinstance(res, list) else res)[:120]}, alone {brief[:120]})",
                        kind="history_dependence", opkind=op["k"], f=what)
        finally:
            server.close()
        ctx.count("pool_objects", len(world.pool))
        if "independence" in scn:
            ctx.count("factory_independence_cases", len(ops) // 5)
        if "reentry" in scn:
            ctx.count("reentrancy_sweep_cases", len(ops))
        if "watch" in scn:
            ctx.count("combinator_chain_cases", scn.get("chains", 0))
            ctx.count("mid_call_watch_cases", (len(ops) - 4 * scn.get("chains", 0)) // 2)
        if "grid" in scn:
            ctx.count("aliasing_grid_cases", len(ops))
            ctx.probe("aliasing_grid_total_cases", 0)
        for op in ops:
            if op["k"] == "call":
                ctx.site("call:" + op["f"])
            elif op["k"] == "obtain":
                ctx.site("obtain:" + op["f"])
            elif op["k"] == "derive":
                ctx.site("derive:" + op["f"])

    # -------------------------------------------------------------- reporting
    def nontrivial(self, scn, res):
        c, p = res["counters"], res["probes"]
        fired = sum(v[1] for v in res["faults"].values())
        return bool(c.get("results_compared", 0) >= 2 and (p.get("mutation_applied") or p.get("shared_argument") or fired))

    def describe(self, scn):
        return scn

    def shrink(self, scn, violation=None):
        s = scn
        ops = s["ops"]
        for k, op in enumerate(ops):
            if "preempt" in op:
                c = copy.deepcopy(s)
                del c["ops"][k]["preempt"]
                yield c
        for k in reversed(range(len(ops))):
            c = _drop(s, k)
            if c is not None:
                yield c
        for k, op in enumerate(ops):
            if "preempt" in op and len(op["preempt"]) > 1:
                for j in range(len(op["preempt"])):
                    c = copy.deepcopy(s)
                    del c["ops"][k]["preempt"][j]
                    yield c
            if op.get("c", 0) != 0:
                c = copy.deepcopy(s)
                c["ops"][k]["c"] = 0
                yield c
            if op["k"] == "call":
                for name, a in op["args"].items():
                    if "form" in a:
                        f = a["form"]
                        for key, val in (("shape", "1d"), ("shape", "0d"), ("dtype", "float64"), ("unit", "target"), ("n", 1)):
                            if f.get(key) != val:
                                c = copy.deepcopy(s)
                                c["ops"][k]["args"][name]["form"][key] = val
                                yield c


def _drop(s, k):
    ops = s["ops"]
    op = ops[k]
    dead = {op["h"]} if op["k"] in ("obtain", "derive") else set()
    # pool refs shift when a call that created pool objects disappears: only drop calls whose
    # objects are not referenced later
    if op["k"] == "call":
        created = sum(1 for a in op["args"].values() if "kind" in a or "data" in a)
        before = sum(1 for o in ops[:k] if o["k"] == "call" for a in o["args"].values() if "kind" in a or "data" in a)
        for o in ops[k + 1:]:
            if o["k"] == "call":
                for a in o["args"].values():
                    if "ref" in a and a["ref"] >= before:
                        if a["ref"] < before + created:
                            return None
    keep = []
    for j, o in enumerate(ops):
        if j == k:
            continue
        if o.get("h") in dead or o.get("src") in dead:
            if o["k"] == "derive":
                dead.add(o["h"])
            continue
        o = copy.deepcopy(o)
        if "preempt" in o:
            o["preempt"] = [p for p in o["preempt"] if p["op"].get("h") not in dead]
            if not o["preempt"]:
                del o["preempt"]
        if op["k"] == "call" and j > k and o["k"] == "call":
            created = sum(1 for a in op["args"].values() if "kind" in a or "data" in a)
            before = sum(1 for oo in ops[:k] if oo["k"] == "call" for a in oo["args"].values() if "kind" in a or "data" in a)
            for a in o["args"].values():
                if "ref" in a and a["ref"] >= before + created:
                    a["ref"] -= created
        keep.append(o)
    if not keep:
        return None
    c = copy.deepcopy(s)
    c["ops"] = keep
    return c


def make_engine(prop):
    return C09Engine()
