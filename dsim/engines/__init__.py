"""Engines: one per claimed property (workload generator + executor + oracle + shrinker)."""

from __future__ import annotations

import importlib

_ENGINES = {
    "C09": "dsim.engines.c09",
    "C12": "dsim.engines.sqw",
    "C13": "dsim.engines.sqw",
    "C14": "dsim.engines.cif",
    "C15": "dsim.engines.xye",
    "C17": "dsim.engines.fit",
    "C20": "dsim.engines.atoms",
}

CLAIMED = tuple(sorted(_ENGINES))


def load_engine(prop: str):
    mod = importlib.import_module(_ENGINES[prop])
    return mod.make_engine(prop)


class Engine:
    """Interface every engine implements."""

    prop = "C00"
    level = "exploration"
    title = ""
    rule = ""
    assumptions: list[str] = []
    components_real: list[str] = []
    components_stubbed: list[str] = []
    fault_kinds_not_applicable: list[str] = [
        "network loss/duplication/reordering/partition (no network code)",
        "clock skew between nodes, leases, timeouts (no timers or deadlines in the library)",
        "thread scheduling inside the library (library is single-threaded; scipp pinned to 1 thread)",
    ]

    def budget(self, tier: str) -> int:
        raise NotImplementedError

    def timeout(self, tier: str) -> int:
        """Wall seconds after which a single run is killed (HARNESS error).  Generous: the enumerated
        sweep runs take tens of seconds on a busy machine; a kill is a harness error, never a verdict."""
        return 600

    def deadline(self, tier: str) -> float:
        """Wall seconds after which a worker stops starting new runs (the evidence
        then reports fewer runs than planned; never a pass/fail decision)."""
        return 240.0 if tier == "quick" else 7200.0

    def selftest_indices(self, n: int) -> list[int]:
        """Run indices for the light determinism self-test (engines whose first runs are long
        enumerated sweeps return a few of those plus ordinary runs)."""
        return list(range(n))

    def extra_meta(self) -> dict:
        """Static facts about the engine for the evidence file (e.g. catalogue coverage)."""
        return {}

    def setup(self) -> None:
        """Called once in the zygote after import: install seams."""

    def generate(self, rng, tier: str, i: int) -> dict:
        raise NotImplementedError

    def execute(self, scenario: dict, ctx, scratch: str) -> None:
        raise NotImplementedError

    def nontrivial(self, scenario: dict, result: dict) -> bool:
        return True

    def describe(self, scenario: dict):
        return scenario

    def shrink(self, scenario: dict, violation: dict | None = None):
        """Yield strictly simpler candidate scenarios, most aggressive first."""
        return iter(())

    def counterfactual(self, name: str, scenario: dict) -> dict:
        """Return the scenario with the trigger of known finding ``name`` neutralised
        (used to attribute violation records to a recorded finding: if the neutralised
        scenario passes, the recorded defect was the only cause)."""
        raise NotImplementedError(name)
