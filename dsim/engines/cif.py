"""C14 — CIF writer under seeded builder programs (pools of chunks / loops / blocks /
high-level builders, derivations, repeated saves), scripted clock and write faults,
judged by an independent CIF 1.1 parser against a reference model of the program.
"""

from __future__ import annotations

import copy
import json
import math
import os
import warnings

import numpy as np

from .. import core, ref_cif, seams
from . import Engine

WS = " \t\n\r"
RESERVED_WORDS = ["data_x", "loop_", "global_", "stop_", "save_", "save_frame", "DATA_Y", "Loop_"]
PLAIN = "abcdefghijklmnopqrstuvwxyzABCDEFGHIJKLMNOPQRSTUVWXYZ0123456789.-+/:=()%&*<>?@^~|!,{}"


# =============================================================================
# string workload: value classes (labelled, so detections that depend only on a value
# say so)


def hazards(s: str) -> list[str]:
    """Classes of a supplied string that stress the CIF quoting rules."""
    h = []
    if s == "":
        h.append("empty")
    if any(ord(c) > 126 for c in s):
        h.append("non_ascii")
    if "\n" in s or "\r" in s:
        h.append("multiline")
        lines = s.replace("\r\n", "\n").replace("\r", "\n").split("\n")
        if any(ln.startswith(";") for ln in lines[1:]):
            h.append("semicolon_line_in_text")
        if "\r" in s:
            h.append("carriage_return")
    if "\t" in s:
        h.append("tab")
    if "'" in s and '"' in s:
        h.append("both_quotes")
    elif "'" in s or '"' in s:
        h.append("quote")
    if s[:1] in ("_", "#", "$", "[", "]", ";"):
        h.append("leading_" + {"_": "underscore", "#": "hash", "$": "dollar", "[": "bracket",
                               "]": "bracket", ";": "semicolon"}[s[:1]])
    low = s.lower()
    if low.startswith(("data_", "save_")) or low in ("loop_", "stop_", "global_"):
        h.append("reserved_word")
    return h


def gen_string(rng, allow_unrepresentable=True) -> str:
    r = rng.random()
    word = lambda a=1, b=10: "".join(rng.choice(PLAIN) for _ in range(rng.randrange(a, b)))  # noqa: E731
    if r < 0.30:
        return word()
    if r < 0.40:
        return word() + " " + word()
    if r < 0.45:
        return ""
    if r < 0.52:
        return rng.choice(["_", "#", "$", "[", "]", ";"]) + word(0, 6)
    if r < 0.57:
        return rng.choice(RESERVED_WORDS)
    if r < 0.63:
        return word() + "\t" + word()
    if r < 0.69:
        return word(0, 4) + "'" + rng.choice(["", " "]) + word(0, 4)
    if r < 0.75:
        return word(0, 4) + '"' + rng.choice(["", " "]) + word(0, 4)
    if r < 0.80:
        return word(0, 4) + "'" + word(0, 3) + '" ' + word(0, 4)
    if r < 0.87:
        return word() + "\n" + word() + rng.choice(["", "\n", " ;x", "\n" + word()])
    if r < 0.90:
        return rng.choice(["café", "Ångström", "中文 text", "x²", "naïve 'q'"])
    if r < 0.92:
        return word() + "\r" + word()
    if r < 0.94:
        return rng.choice(["?", ".", "1.5", "-3", "1e5", "1.2(3)", "'", '"', "''", " lead", "trail ",
                           "a;b", "a#b", "a_b", "x$", "#", "a '", 'a "'])
    if 0.945 <= r < 0.96:
        return gen_long(rng)
    if r < 0.945 and allow_unrepresentable:
        return word() + "\n;" + word(0, 5)  # no CIF 1.1 representation exists
    n = rng.randrange(1, 80)
    alphabet = PLAIN + "  '\"_#$;[]\t"
    return "".join(rng.choice(alphabet) for _ in range(n))


def gen_long(rng) -> str:
    """Long text (a provenance record, a command line, a JSON dump): around and beyond the
    80 / 2048 character line lengths of the CIF specifications."""
    n = rng.choice([79, 80, 81, 200, 2046, 2047, 2048, 2049, 3000, 5000, 20000])
    kind = rng.randrange(4)
    if kind == 0:
        return "A" * n
    if kind == 1:
        words = ["_prov.step", "value", "data_leak", "loop_", "_x", "1", "2.5(3)", "#", ";", "'q'", "stop_"]
    else:
        words = ["w%d" % k for k in range(7)] + ["reduce", "--input", "run_1234.nxs", "{\"a\":", "1}"]
    out = []
    size = 0
    while size < n:
        w = rng.choice(words)
        out.append(w)
        size += len(w) + 1
    text = " ".join(out)[:n].rstrip() or "A"
    if kind == 3:
        text = "short first line\n" + text
    return text


def gen_comment(rng) -> str:
    r = rng.random()
    if r < 0.4:
        return ""
    if r < 0.43:
        return gen_long(rng)
    if r < 0.6:
        return gen_string(rng).replace("\r", " ")
    return rng.choice(["a comment", "two\nlines", "_tag value", "loop_", "data_evil\n_x 1",
                       "; not a text field", "'quoted'", "# hash", "très", "line\n\nafter blank",
                       "ends with newline\n"])


def gen_float(rng) -> float:
    r = rng.random()
    if r < 0.1:
        return float(rng.randrange(-5, 6))
    if r < 0.2:
        return rng.choice([1e-5, 1e16, 1.2345678901234568e17, 5e-324, 1.7976931348623157e308,
                           -0.0, 0.1, 1 / 3, 123456.789, 1e22, 1e-7])
    return rng.uniform(-1, 1) * 10.0 ** rng.randrange(-12, 13)


def _gen_variance(rng, x: float) -> float:
    """Variance whose standard deviation is within 1e-9 .. 1e4 of the value's magnitude: the
    value(su) text is produced by scipp's compact formatter, which prints 'inf(..)' for more
    extreme ratios (a limitation of the dependency, not of the CIF writer)."""
    scale = abs(x) if abs(x) > 1e-200 else 1.0
    sd = scale * 10.0 ** rng.uniform(-9, 4)
    return min(sd * sd, 1e300)


def _gen_variances(rng, n: int, p_some: float):
    """None, ordinary, exactly zero everywhere (loaders use that for 'no uncertainty'; the su is
    then 0, not absent), or zeros mixed in."""
    if rng.random() >= p_some:
        return None
    r = rng.random()
    if r < 0.15:
        return [rng.choice([0.0, 0.0, -0.0]) for _ in range(n)]
    v = [abs(gen_float(rng)) for _ in range(n)]
    if r < 0.3:
        v[rng.randrange(n)] = 0.0
    return v


def gen_val(rng) -> dict:
    r = rng.random()
    if r < 0.5:
        return {"t": "s", "v": gen_string(rng)}
    if r < 0.62:
        return {"t": "f", "v": gen_float(rng)}
    if r < 0.65:
        # numpy scalars print like their Python value for float64 / int64
        return {"t": "f", "v": gen_float(rng), "np": "float64"}
    if r < 0.72:
        return {"t": "i", "v": rng.randrange(-1000, 100000)}
    if r < 0.75:
        return {"t": "i", "v": rng.randrange(-1000, 100000), "np": rng.choice(["int64", "int32"])}
    if r < 0.95:
        x = gen_float(rng)
        if abs(x) > 1e300:
            x = 1e300  # scipp's compact value(su) formatting overflows to 'inf(..)' near DBL_MAX
        var = None
        if rng.random() < 0.6:
            var = _gen_variance(rng, x) if rng.random() < 0.8 else 0.0
        return {"t": "var", "v": x, "var": var, "unit": rng.choice([None, "m", "us", "one"])}
    return {"t": "date", "v": rng.choice(["2024-09-05T13:47:54+00:00", "1999-12-31T23:59:59",
                                          "2000-02-29T00:00:00.250000+02:00"])}


_TAGN = [0]


def gen_tag(rng, used: set) -> str:
    while True:
        t = rng.choice(["x", "pd_meas", "diffrn", "my_cat", "a"]) + "." + "".join(
            rng.choice("abcdefghij_") for _ in range(rng.randrange(1, 8))) + str(len(used))
        if t.lower() not in used:
            used.add(t.lower())
            return t


def gen_col(rng, n: int) -> dict:
    r = rng.random()
    if r < 0.07:
        # a text column with missing entries (None) or built with dtype=PyObject: object dtype
        return {"t": "so", "v": [None if rng.random() < 0.25 else gen_string(rng) for _ in range(n)]}
    if r < 0.35:
        return {"t": "s", "v": [gen_string(rng) for _ in range(n)]}
    if r < 0.6:
        return {"t": "f", "v": [gen_float(rng) for _ in range(n)]}
    if r < 0.75:
        return {"t": "i", "v": [rng.randrange(-10, 1000) for _ in range(n)]}
    vals = [max(-1e300, min(1e300, gen_float(rng))) for _ in range(n)]
    return {"t": "fv", "v": vals, "var": [_gen_variance(rng, x) for x in vals]}


def _orcid(rng) -> str:
    digits = [rng.randrange(10) for _ in range(15)]
    total = 0
    for d in digits:
        total = (total + d) * 2
    c = (12 - total % 11) % 11
    s = "".join(map(str, digits)) + ("X" if c == 10 else str(c))
    ident = "-".join(s[i:i + 4] for i in range(0, 16, 4))
    return ident if rng.random() < 0.5 else "https://orcid.org/" + ident


def gen_person(rng) -> dict:
    return {
        "name": "" if rng.random() < 0.12 else (gen_string(rng) or "N"),
        "orcid_id": _orcid(rng) if rng.random() < 0.4 else None,
        "corresponding": rng.random() < 0.35,
        "role": (gen_string(rng) or None) if rng.random() < 0.5 else None,
        "address": gen_string(rng) if rng.random() < 0.3 else None,
        "email": rng.choice(["a.b@example.org", "jane_doe@ess.eu"]) if rng.random() < 0.4 else None,
    }


def gen_block_name(rng) -> str:
    r = rng.random()
    if r < 0.04:
        return ""  # the default name of cif.CIF() and a legal argument of cif.Block
    if r < 0.7:
        return "".join(rng.choice(PLAIN + "_#$;'\"[]") for _ in range(rng.randrange(1, 20)))
    if r < 0.85:
        return rng.choice(["café", "blöck-1", "my-data", "a" * 75])
    return "b" + str(rng.randrange(100))


def generate(rng, tier, i):
    used_tags: set = set()
    ops = []
    nid = [0]

    def new():
        nid[0] += 1
        return nid[0]

    def mk_chunk():
        k = new()
        ops.append({"op": "chunk", "id": k,
                    "pairs": [[gen_tag(rng, used_tags), gen_val(rng)] for _ in range(rng.randrange(0, 5))],
                    "comment": gen_comment(rng), "schema": rng.choice([None, None, "core", "pd"])})
        return k

    def mk_loop():
        k = new()
        n = rng.choice([1, 1, 2, 3, 5, 50]) if rng.random() < 0.85 else rng.randrange(1, 51)
        ops.append({"op": "loop", "id": k, "n": n,
                    "cols": [[gen_tag(rng, used_tags), gen_col(rng, n)] for _ in range(rng.randrange(1, 7))],
                    "comment": gen_comment(rng), "schema": rng.choice([None, None, "core", "pd"])})
        return k

    flavour = rng.random()
    blocks, cifs, items = [], [], []
    used_by_cif: dict[int, set] = {}
    # "all sequences of builder calls" includes giving a builder a second beamline / data set /
    # calibration (rare in the workload: it trips the recorded finding F-C14-3)
    allow_dup = rng.random() < 0.04
    n_ops = rng.randrange(2, 13)
    saves = 0
    for _ in range(n_ops):
        r = rng.random()
        if flavour < 0.45 or (flavour < 0.6 and rng.random() < 0.5):
            # low-level interface
            if r < 0.25 or not items:
                items.append(mk_chunk() if rng.random() < 0.5 else mk_loop())
            elif r < 0.45 or not blocks:
                k = new()
                content = []
                free = [x for x in items if not any(x in b["content"] for b in ops if b["op"] == "block")]
                for x in free[: rng.randrange(0, 4)]:
                    content.append(x)
                if rng.random() < 0.3:
                    content.append({"pairs": [[gen_tag(rng, used_tags), gen_val(rng)]]})
                ops.append({"op": "block", "id": k, "name": gen_block_name(rng) + str(k), "content": content,
                            "comment": gen_comment(rng), "schema": rng.choice([None, None, "core"])})
                blocks.append(k)
            elif r < 0.55:
                b = rng.choice(blocks)
                if rng.random() < 0.5:
                    it = mk_chunk() if rng.random() < 0.5 else mk_loop()
                    ops.append({"op": "block_add", "block": b, "item": it})
                else:
                    ops.append({"op": "block_add", "block": b,
                                "item": {"pairs": [[gen_tag(rng, used_tags), gen_val(rng)]]},
                                "comment": gen_comment(rng)})
            elif r < 0.62:
                ch = [o["id"] for o in ops if o["op"] == "chunk"]
                if ch:
                    ops.append({"op": "chunk_set", "chunk": rng.choice(ch),
                                "key": gen_tag(rng, used_tags), "val": gen_val(rng)})
            elif r < 0.66:
                lp = [o for o in ops if o["op"] == "loop"]
                if lp:
                    o = rng.choice(lp)
                    ops.append({"op": "loop_set", "loop": o["id"], "key": gen_tag(rng, used_tags),
                                "col": gen_col(rng, o["n"])})
            elif r < 0.70:
                # an operation the library must refuse -- and then be used as if nothing happened
                lp = [o for o in ops if o["op"] == "loop"]
                if lp and rng.random() < 0.7:
                    o = rng.choice(lp)
                    keys = [c[0] for c in o["cols"]] + [x["key"] for x in ops if x["op"] == "loop_set" and x["loop"] == o["id"]]
                    key = rng.choice(keys) if rng.random() < 0.6 else gen_tag(rng, used_tags)
                    ops.append({"op": "loop_set_bad", "loop": o["id"], "key": key,
                                "col": gen_col(rng, o["n"] + rng.choice([1, 2, -1]) if o["n"] > 1 else o["n"] + 1),
                                "two_d": rng.random() < 0.2})
                elif blocks:
                    ops.append({"op": "block_bad_name", "block": rng.choice(blocks),
                                "name": rng.choice(["has space", "tab\tname", "line\nbreak", "cr\rname", "\r"])})
            else:
                sel = rng.sample(blocks, rng.randrange(1, min(3, len(blocks)) + 1))
                ops.append({"op": "save_blocks", "blocks": sel, "comment": gen_comment(rng),
                            "container": rng.choice(["list", "list", "tuple", "generator", "iter", "map", "dict_values"]),
                            "single": len(sel) == 1 and rng.random() < 0.5})
                saves += 1
        else:
            # high-level builder
            if not cifs or r < 0.08:
                k = new()
                ops.append({"op": "cif", "id": k, "name": gen_block_name(rng), "comment": gen_comment(rng)})
                cifs.append(k)
                used_by_cif[k] = set()
                continue
            src = rng.choice(cifs)
            k = new()
            avail = {"beamline", "powder_tof", "powder_dspacing", "calibration"} - (
                set() if allow_dup else used_by_cif[src])
            if r < 0.28:
                ops.append({"op": "with_authors", "src": src, "id": k,
                            "authors": [gen_person(rng) for _ in range(rng.choice([0, 1, 1, 2, 3, 5]))]})
                used_by_cif[k] = set(used_by_cif[src])
                cifs.append(k)
            elif r < 0.38:
                ops.append({"op": "with_reducers", "src": src, "id": k,
                            "reducers": [gen_string(rng) for _ in range(rng.choice([0, 1, 1, 2, 3]))]})
                used_by_cif[k] = set(used_by_cif[src])
                cifs.append(k)
            elif r < 0.48 and "beamline" in avail:
                source = None
                if rng.random() < 0.5:
                    source = {"name": gen_string(rng) or None,
                              "type": rng.choice(["spallation", "reactor", "synchrotron"])}
                ops.append({"op": "with_beamline", "src": src, "id": k,
                            "beamline": {"name": gen_string(rng) or "B",
                                         "facility": rng.choice([None, "ESS", "isis", "SINQ", gen_string(rng)]),
                                         "site": rng.choice([None, "PSI"])},
                            "source": source, "comment": gen_comment(rng)})
                used_by_cif[k] = used_by_cif[src] | {"beamline"}
                cifs.append(k)
            elif r < 0.62 and ({"powder_tof", "powder_dspacing"} & avail):
                dim = rng.choice(sorted({"powder_tof", "powder_dspacing"} & avail))[7:]
                n = rng.choice([1, 2, 3, 10, 50])
                ops.append({"op": "with_powder", "src": src, "id": k, "dim": dim, "n": n,
                            "values": [gen_float(rng) for _ in range(n)],
                            "variances": _gen_variances(rng, n, 0.7),
                            "extra_coord": ({"name": rng.choice(["tof", "dspacing", "two_theta", "x"]),
                                             "unaligned": rng.random() < 0.5} if rng.random() < 0.25 else None),
                            "coord": sorted(abs(gen_float(rng)) for _ in range(n)),
                            "coord_var": _gen_variances(rng, n, 0.3),
                            "unit": rng.choice(["one", "one", "counts", "us"]),
                            "name": rng.choice(["", "", "intensity_net", "intensity_norm", "intensity_total"]),
                            "comment": gen_comment(rng)})
                used_by_cif[k] = used_by_cif[src] | {"powder_tof", "powder_dspacing"}
                cifs.append(k)
            elif r < 0.7 and "calibration" in avail:
                powers = rng.sample([0, 1, 2, -1, 3, -2, 0.5], rng.randrange(1, 5))
                ops.append({"op": "with_calibration", "src": src, "id": k, "powers": powers,
                            "int_powers": all(float(p).is_integer() for p in powers) and rng.random() < 0.7,
                            "coeffs": [gen_float(rng) for _ in powers],
                            "variances": [abs(gen_float(rng)) for _ in powers] if rng.random() < 0.5 else None,
                            "comment": gen_comment(rng)})
                used_by_cif[k] = used_by_cif[src] | {"calibration"}
                cifs.append(k)
            elif r < 0.75:
                ops.append({"op": "copy", "src": src, "id": k})
                used_by_cif[k] = set(used_by_cif[src])
                cifs.append(k)
            elif r < 0.8:
                ops.append({"op": "set_comment", "cif": src, "comment": gen_comment(rng)})
            elif r < 0.83:
                ops.append({"op": "set_name", "cif": src, "name": gen_block_name(rng)})
            elif r < 0.84:
                ops.append({"op": "cif_bad_name", "cif": src, "name": rng.choice(["has space", "a\tb", "x\ny", "x\ry"])})
            elif r < 0.855:
                ops.append({"op": "with_powder_bad", "cif": src,
                            "variant": rng.choice(["unit", "dim", "ndim", "name"])})
            else:
                ops.append({"op": "save", "cif": src,
                            "via": rng.choice(["method", "method", "save_cif", "save_cif_comment"]),
                            "comment": gen_comment(rng) or "c"})
                saves += 1
    # make sure something is saved
    if not saves:
        if cifs:
            ops.append({"op": "save", "cif": rng.choice(cifs), "via": "method", "comment": "c"})
        elif blocks:
            ops.append({"op": "save_blocks", "blocks": [rng.choice(blocks)], "comment": "", "single": True})
        else:
            k = new()
            ops.append({"op": "cif", "id": k, "name": "n", "comment": ""})
            ops.append({"op": "save", "cif": k, "via": "method", "comment": "c"})
    sink = rng.choice(["mem", "mem", "path"])
    f = rng.random()
    faults = {"mode": "none"}
    if f < 0.25:
        faults = ({"mode": "enum_writes", "partial": rng.choice([0.0, 0.5]), "err": rng.choice(seams.WRITE_ERRORS)} if sink == "mem"
                  else {"mode": "fsize", "fracs": [rng.random() for _ in range(4)]})
    scn = {
        "ops": ops, "sink": sink,
        "clock": {"start": rng.choice(["2024-09-05T13:47:54+00:00", "0001-01-01T00:00:00+00:00",
                                       "9999-12-31T23:59:59+00:00", "2016-12-31T23:59:59.999999+00:00"]),
                  "deltas": [rng.choice([0.0, 0.5, 1.0, -3600.0, 86400.0 * 365])]},
        "faults": faults,
    }
    if rng.random() < 0.12:
        # the caller changes one of ITS OWN column variables in place between two saves
        n = rng.randrange(1, 6)
        cols = [["ip.c%d" % k, gen_col(rng, n)] for k in range(rng.randrange(1, 4))]
        k = rng.randrange(len(cols))
        row = rng.randrange(n)
        new_col = gen_col(rng, n)
        while new_col["t"] != cols[k][1]["t"]:
            new_col = gen_col(rng, n)
        scn["inplace"] = {"cols": cols, "col": k, "row": row,
                          "new": {kk: (vv[row] if isinstance(vv, list) else vv) for kk, vv in new_col.items()},
                          "via": rng.choice(["same_block", "block_copy", "builder"])}
    n_saves = sum(o["op"] in ("save", "save_blocks") for o in ops)
    if n_saves >= 1 and rng.random() < 0.15:
        # Ctrl-C / cancellation inside one save, then the program carries on
        scn["interrupt"] = {"at_save": rng.randrange(1, n_saves + 1), "frac": rng.random(),
                            "where": rng.choice(["line", "line", "write"])}
    if n_saves >= 2 and rng.random() < 0.25:
        # a second caller saves another (earlier saved) object between two lines of this save
        at = rng.randrange(2, n_saves + 1)
        scn["interleave"] = {"at_save": at, "other_save": rng.randrange(1, at), "frac": rng.random(),
                             "where": rng.choice(["line", "write", "site"])}
    return scn


# =============================================================================
# reference model of the program


def esc(s: str) -> str:
    return s.encode("ascii", "backslashreplace").decode("ascii")


class MItem:
    def __init__(self, kind, comment, schema):
        self.kind = kind  # "chunk" | "loop"
        self.comment = esc(comment)
        self.schema = set() if schema is None else {schema, "core"}
        self.pairs: list = []  # chunk: [key, valspec]
        self.cols: list = []  # loop: [key, [valspec...]]


class MBlock:
    def __init__(self, name, content, comment, schema):
        self.name = esc(name)
        self.content = list(content)
        self.comment = esc(comment)
        self.own_schema = set() if schema is None else set(schema) | {"core"}

    def schema(self):
        s = set(self.own_schema)
        for it in self.content:
            s |= it.schema
        return s

    def copy(self):
        return MBlock(self.name, list(self.content), self.comment, self.schema() or None)


class MCif:
    def __init__(self, name, comment):
        self.name = esc(name)
        self.comment = esc(comment)
        self.content: list = []
        self.authors: list = []
        self.reducers: list = []

    def copy(self):
        c = MCif(self.name, self.comment)
        c.content = list(self.content)
        c.authors = list(self.authors)
        c.reducers = list(self.reducers)
        return c


def col_to_vals(col: dict) -> list:
    t = col["t"]
    if t == "so":
        return [{"t": "s", "v": "None" if x is None else x} for x in col["v"]]
    if t == "s":
        return [{"t": "s", "v": x} for x in col["v"]]
    if t == "f":
        return [{"t": "f", "v": x} for x in col["v"]]
    if t == "i":
        return [{"t": "i", "v": x} for x in col["v"]]
    return [{"t": "var", "v": x, "var": v, "unit": None} for x, v in zip(col["v"], col["var"], strict=True)]


# =============================================================================
# execution


class CifEngine(Engine):
    prop = "C14"
    level = "exploration"
    title = "CIF output is valid CIF 1.1 and parses back to exactly what was supplied"
    rule = (
        "A case is one seeded program of 2-12 operations over pools of chunks, loops, blocks and "
        "high-level CIF builders (with_authors / reducers / beamline / reduced powder data / "
        "calibration, copy, comment/name setters, chunk/loop item assignment, block.add, block "
        "copy) with saves at arbitrary points, any number of times, through a SimStringIO or a real "
        "path, under a scripted clock; fault plans: none, ENOSPC at every write ordinal of each "
        "save (the builder is then saved again = retry), RLIMIT_FSIZE disk-full on paths. Every "
        "saved text is parsed by the independent CIF 1.1 parser and compared item by item with the "
        "reference model of the program. String VALUES come from a labelled alphabet of hazard "
        "classes (leading _ # $ ; [ ], reserved words, tabs, quotes, newlines, non-ASCII, empty); "
        "violations that need only such a value are labelled found_by='workload value'. Distinct "
        "= distinct scenario digest; non-trivial = at least one save whose text was parsed and "
        "compared AND (>= 2 saves, or a derived builder saved, or a fault fired, or a hazard-class "
        "string was written)."
    )
    assumptions = [
        "dsim/ref_cif.py implements the CIF 1.1 grammar (trusted; has its own examples in the self-test)",
        "strings compare after stripping blanks/tabs/newlines on both sides ('up to surrounding blanks')",
        "numbers: float(parsed) == float(str(supplied)); value(su): within one unit of the su's leading "
        "digit; _su columns within 2 ulp of sqrt(variance); value(su) pairs keep sd/|value| within "
        "1e-9..1e4 and |value| <= 1e300 because the compact text is produced by scipp's formatter, "
        "which prints 'inf(..)' for more extreme combinations (dependency limitation, not judged)",
        "automatic content (audit.creation_method text, calibration ids, schema loop) is checked for "
        "presence/shape, schema rows as a set; author ids only for uniqueness and role linkage",
        "tags are generated unique per block and singleton builder sections are added at most once "
        "(duplicate tags are a user error the builder does not promise to prevent)",
        "block names are non-empty and free of white space (documented precondition)",
        "only write-side faults; acknowledgement rule",
    ]
    components_real = ["scippneutron.io.cif", "scippneutron.metadata (pydantic models, ORCID)", "scipp"]
    components_stubbed = ["text sink = SimStringIO", "clock = SimClock behind cif.datetime",
                          "disk-full = RLIMIT_FSIZE"]

    def budget(self, tier):
        return 5000 if tier == "quick" else 300000

    def setup(self):
        import signal

        import scippneutron.io.cif as cif

        seams.install_clock(cif)
        signal.signal(signal.SIGXFSZ, signal.SIG_IGN)

    SWEEP_RUNS = 4

    def selftest_indices(self, n):
        return [0] + list(range(self.SWEEP_RUNS, self.SWEEP_RUNS + n - 1))

    def generate(self, rng, tier, i):
        import random

        if 0 <= i < self.SWEEP_RUNS:
            # enumerated interleavings for one canonical program (a builder with authors and
            # roles, reducers and powder data, saved twice): every distinct line of cif.py and
            # every write() of the last save is used once as the point where the other save runs
            for seed in range(7000, 9000):
                scn = generate(random.Random(seed), tier, -1)
                kinds = [o["op"] for o in scn["ops"]]
                text = json.dumps(scn["ops"])
                saves = [o for o in scn["ops"] if o["op"] == "save"]
                if (len(saves) >= 2 and "with_authors" in kinds and "with_powder" in kinds and '"role": "' in text
                        and _lineage_has_roles(scn["ops"], saves[-1]["cif"])
                        and "\\n;" not in text and '"name": ""' not in text and not any(
                            o["op"] in ("loop_set_bad", "block_bad_name", "cif_bad_name", "with_powder_bad") for o in scn["ops"])):
                    break
            n_saves = sum(o["op"] in ("save", "save_blocks") for o in scn["ops"])
            scn.update(sink="mem", faults={"mode": "none"})
            scn.pop("inplace", None)
            scn["interleave"] = {"at_save": n_saves, "other_save": n_saves - 1, "sweep": [i, self.SWEEP_RUNS]}
            scn["interrupt"] = {"at_save": n_saves, "sweep": [i, self.SWEEP_RUNS]}
            return scn
        scn = generate(rng, tier, i)
        if rng.random() < 0.1:
            scn["locale"] = "C"  # default text encoding of open() is strict ASCII
        if rng.random() < 0.15:
            scn["logging"] = rng.choice(["INFO", "DEBUG"])  # the application has logging switched on
        return scn

    # ----------------------------------------------------------- lib objects
    def _val(self, v):
        import datetime as dt

        import scipp as sc

        t = v["t"]
        if t in ("f", "i") and v.get("np"):
            return np.dtype(v["np"]).type(v["v"])
        if t in ("s", "f", "i"):
            return v["v"]
        if t == "var":
            return sc.scalar(float(v["v"]), variance=v["var"], unit=v["unit"])
        if t == "date":
            return dt.datetime.fromisoformat(v["v"])
        raise core.HarnessError(f"bad valspec {v}")

    def _col(self, c, dim="row"):
        import scipp as sc

        t = c["t"]
        if t == "so":
            return sc.array(dims=[dim], values=list(c["v"]), dtype=sc.DType.PyObject)
        if t == "s":
            return sc.array(dims=[dim], values=list(c["v"]))
        if t == "f":
            return sc.array(dims=[dim], values=np.asarray(c["v"], dtype=float))
        if t == "i":
            return sc.array(dims=[dim], values=np.asarray(c["v"], dtype="int64"), unit=None)
        return sc.array(dims=[dim], values=np.asarray(c["v"], dtype=float),
                        variances=np.asarray(c["var"], dtype=float))

    def _schema(self, s):
        import scippneutron.io.cif as cif

        return {None: None, "core": cif.CORE_SCHEMA, "pd": cif.PD_SCHEMA}[s]

    # --------------------------------------------------------------- execute
    def execute(self, scn, ctx, scratch):
        import scipp as sc
        import scippneutron.io.cif as cif
        from scippneutron import metadata as md

        warnings.simplefilter("ignore")
        os.chdir(scratch)
        seams.CLOCK.set(scn["clock"])
        seams.CLOCK.ctx = ctx
        lib: dict[int, object] = {}
        mod: dict[int, object] = {}
        n_saves = 0
        self._hz = set()

        def note_strings(*vals):
            for v in vals:
                if isinstance(v, str):
                    self._hz.update(hazards(v))

        def chunk_from_pairs(pairs, comment="", schema=None):
            m = MItem("chunk", comment, schema)
            m.pairs = [[k, v] for k, v in pairs]
            for _, v in pairs:
                if v["t"] == "s":
                    note_strings(v["v"])
            return m

        for op in scn["ops"]:
            o = op["op"]
            ctx.step(o)
            res, exc = None, None
            if o == "chunk":
                res, exc = core.capture(lambda: cif.Chunk({k: self._val(v) for k, v in op["pairs"]},
                                                          comment=op["comment"], schema=self._schema(op["schema"])))
                lib[op["id"]] = res
                mod[op["id"]] = chunk_from_pairs(op["pairs"], op["comment"], op["schema"])
            elif o == "loop":
                res, exc = core.capture(lambda: cif.Loop({k: self._col(c) for k, c in op["cols"]},
                                                         comment=op["comment"], schema=self._schema(op["schema"])))
                lib[op["id"]] = res
                m = MItem("loop", op["comment"], op["schema"])
                m.cols = [[k, col_to_vals(c)] for k, c in op["cols"]]
                for _, c in op["cols"]:
                    if c["t"] in ("s", "so"):
                        note_strings(*[x for x in c["v"] if x is not None])
                mod[op["id"]] = m
            elif o == "block":
                content_l, content_m = [], []
                for it in op["content"]:
                    if isinstance(it, dict):
                        content_l.append({k: self._val(v) for k, v in it["pairs"]})
                        content_m.append(chunk_from_pairs(it["pairs"]))
                    else:
                        content_l.append(lib[it])
                        content_m.append(mod[it])
                sch = None if op["schema"] is None else self._schema(op["schema"])
                res, exc = core.capture(lambda: cif.Block(op["name"], content_l, comment=op["comment"], schema=sch))
                lib[op["id"]] = res
                mod[op["id"]] = MBlock(op["name"], content_m, op["comment"],
                                       None if op["schema"] is None else {op["schema"]})
            elif o == "block_add":
                it = op["item"]
                if isinstance(it, dict):
                    _, exc = core.capture(lambda: lib[op["block"]].add(
                        {k: self._val(v) for k, v in it["pairs"]}, comment=op.get("comment", "")))
                    mod[op["block"]].content.append(chunk_from_pairs(it["pairs"], op.get("comment", "")))
                else:
                    _, exc = core.capture(lambda: lib[op["block"]].add(lib[it]))
                    mod[op["block"]].content.append(mod[it])
            elif o == "block_copy":
                res, exc = core.capture(lambda: lib[op["src"]].copy())
                lib[op["id"]] = res
                mod[op["id"]] = mod[op["src"]].copy()
            elif o == "chunk_set":
                _, exc = core.capture(lambda: lib[op["chunk"]].__setitem__(op["key"], self._val(op["val"])))
                mod[op["chunk"]].pairs.append([op["key"], op["val"]])
                if op["val"]["t"] == "s":
                    note_strings(op["val"]["v"])
            elif o == "loop_set":
                _, exc = core.capture(lambda: lib[op["loop"]].__setitem__(op["key"], self._col(op["col"])))
                mod[op["loop"]].cols.append([op["key"], col_to_vals(op["col"])])
                if op["col"]["t"] in ("s", "so"):
                    note_strings(*[x for x in op["col"]["v"] if x is not None])
            elif o in ("loop_set_bad", "block_bad_name", "cif_bad_name", "with_powder_bad"):
                if o == "with_powder_bad":
                    def bad():
                        v = op["variant"]
                        dim = "energy" if v == "dim" else "tof"
                        coord = sc.array(dims=[dim], values=[1.0, 2.0], unit="ms" if v == "unit" else "us")
                        data = sc.array(dims=[dim], values=[1.0, 2.0], variances=[1.0, 1.0])
                        da = sc.DataArray(data, coords={dim: coord}, name="bogus" if v == "name" else "")
                        if v == "ndim":
                            da = sc.concat([da, da], "extra")
                        lib[op["cif"]].with_reduced_powder_data(da, comment="must not appear")
                elif o == "loop_set_bad":
                    def bad():
                        col = self._col(op["col"])
                        if op.get("two_d"):
                            col = sc.concat([col, col], "extra")
                        lib[op["loop"]][op["key"]] = col
                elif o == "block_bad_name":
                    def bad():
                        lib[op["block"]].name = op["name"]
                else:
                    def bad():
                        lib[op["cif"]].name = op["name"]
                _, e_bad = core.capture(bad)
                ctx.log("op", o, "refused:" + e_bad.name if e_bad else "ACCEPTED")
                if e_bad is None and o in ("block_bad_name", "cif_bad_name"):
                    # accepted: nothing in the statement says a name with white space must be
                    # refused -- but then whatever is saved must still be valid CIF and carry the
                    # name; the model follows and the next save is judged
                    ctx.probe("name_with_white_space_accepted")
                    mod[op["block"] if o == "block_bad_name" else op["cif"]].name = esc(op["name"])
                    continue
                if e_bad is None:
                    # accepted: nothing in the statement says it must be refused, but the
                    # reference model cannot follow an invalid object any further
                    ctx.probe("invalid_operation_accepted")
                    return
                ctx.probe("refused_operation_then_continued")
                continue
            elif o == "cif":
                if op["name"] == "":
                    res, exc = core.capture(lambda: cif.CIF(comment=op["comment"]))  # default name
                else:
                    res, exc = core.capture(lambda: cif.CIF(op["name"], comment=op["comment"]))
                lib[op["id"]] = res
                mod[op["id"]] = MCif(op["name"], op["comment"])
            elif o == "copy":
                res, exc = core.capture(lambda: lib[op["src"]].copy())
                lib[op["id"]] = res
                mod[op["id"]] = mod[op["src"]].copy()
                ctx.probe("builder_derived")
            elif o == "with_authors":
                def mk():
                    ps = [md.Person(name=a["name"], orcid_id=a["orcid_id"], corresponding=a["corresponding"],
                                    role=a["role"], address=a["address"], email=a["email"])
                          for a in op["authors"]]
                    return lib[op["src"]].with_authors(*ps)
                res, exc = core.capture(mk)
                lib[op["id"]] = res
                m = mod[op["src"]].copy()
                m.authors.extend(op["authors"])
                for a in op["authors"]:
                    note_strings(a["name"], a["role"], a["address"])
                mod[op["id"]] = m
                ctx.probe("builder_derived")
            elif o == "with_reducers":
                res, exc = core.capture(lambda: lib[op["src"]].with_reducers(*op["reducers"]))
                lib[op["id"]] = res
                m = mod[op["src"]].copy()
                m.reducers.extend(op["reducers"])
                note_strings(*op["reducers"])
                mod[op["id"]] = m
                ctx.probe("builder_derived")
            elif o == "with_beamline":
                def mk():
                    b = op["beamline"]
                    bl = md.Beamline(name=b["name"], facility=b["facility"], site=b["site"])
                    src = None
                    if op["source"] is not None:
                        ty = {"spallation": md.SourceType.SpallationNeutronSource,
                              "reactor": md.SourceType.ReactorNeutronSource,
                              "synchrotron": md.SourceType.SynchrotronXraySource}[op["source"]["type"]]
                        pr = md.RadiationProbe.Xray if op["source"]["type"] == "synchrotron" else md.RadiationProbe.Neutron
                        src = md.Source(name=op["source"]["name"], source_type=ty, probe=pr)
                    return lib[op["src"]].with_beamline(bl, src, comment=op["comment"])
                res, exc = core.capture(mk)
                lib[op["id"]] = res
                m = mod[op["src"]].copy()
                b = op["beamline"]
                if op["source"] is None:
                    known = (b["facility"] or "").lower() in ("csns", "ess", "isis", "j-parc", "lanscesinq", "sns")
                    device, probe = ("spallation", "neutron") if known else (None, None)
                else:
                    device, probe = {"spallation": ("spallation", "neutron"), "reactor": ("nuclear", "neutron"),
                                     "synchrotron": ("synch", "x-ray")}[op["source"]["type"]]
                pairs = [("diffrn_radiation.probe", probe), ("diffrn_source.beamline", b["name"]),
                         ("diffrn_source.facility", b["facility"]), ("diffrn_source.device", device)]
                m.content.append(chunk_from_pairs([[k, {"t": "s", "v": v}] for k, v in pairs if v is not None],
                                                  op["comment"], "core"))
                mod[op["id"]] = m
                ctx.probe("builder_derived")
            elif o == "with_powder":
                def mk():
                    unit = {"tof": "us", "dspacing": "angstrom"}[op["dim"]]
                    coord = sc.array(dims=[op["dim"]], values=np.asarray(op["coord"], dtype=float), unit=unit,
                                     variances=None if op["coord_var"] is None else np.asarray(op["coord_var"], dtype=float))
                    data = sc.array(dims=[op["dim"]], values=np.asarray(op["values"], dtype=float), unit=op["unit"],
                                    variances=None if op["variances"] is None else np.asarray(op["variances"], dtype=float))
                    coords = {op["dim"]: coord}
                    ex = op.get("extra_coord")
                    if ex:
                        # what transform_coords leaves behind (tof next to dspacing), or any other
                        # coordinate: attached BEFORE the dimension-coordinate
                        other = sc.array(dims=[op["dim"]], values=np.arange(float(op["n"])) + 100.0,
                                         unit={"tof": "us", "dspacing": "angstrom"}.get(ex["name"], "m"))
                        coords = {ex["name"]: other, op["dim"]: coord}
                    da = sc.DataArray(data, coords=coords, name=op["name"])
                    if ex and ex.get("unaligned"):
                        da.coords.set_aligned(ex["name"], False)
                    return lib[op["src"]].with_reduced_powder_data(da, comment=op["comment"])
                res, exc = core.capture(mk)
                lib[op["id"]] = res
                m = mod[op["src"]].copy()
                cname = {"tof": "pd_meas.time_of_flight", "dspacing": "pd_proc.d_spacing"}[op["dim"]]
                dname = "pd_proc." + (op["name"] or "intensity_norm")
                comment = op["comment"]
                if op["unit"] != "one":
                    ustr = str(sc.Unit(op["unit"]))
                    comment = (esc(comment) + "\n" if comment else "") + f"Unit of intensity: [{ustr}]"
                lp = MItem("loop", comment, "pd")
                n = op["n"]
                lp.cols = [["pd_data.point_id", [{"t": "i", "v": k} for k in range(n)]],
                           [cname, [{"t": "f", "v": x} for x in op["coord"]]]]
                if op["coord_var"] is not None:
                    lp.cols.append([cname + "_su", [{"t": "su", "var": v} for v in op["coord_var"]]])
                lp.cols.append([dname, [{"t": "f", "v": x} for x in op["values"]]])
                if op["variances"] is not None:
                    lp.cols.append([dname + "_su", [{"t": "su", "var": v} for v in op["variances"]]])
                m.content.append(lp)
                mod[op["id"]] = m
                ctx.probe("builder_derived")
            elif o == "with_calibration":
                def mk():
                    pw = np.asarray(op["powers"], dtype="int64" if op["int_powers"] else float)
                    cal = sc.DataArray(
                        sc.array(dims=["cal"], values=np.asarray(op["coeffs"], dtype=float),
                                 variances=None if op["variances"] is None else np.asarray(op["variances"], dtype=float)),
                        coords={"power": sc.array(dims=["cal"], values=pw, unit=None)})
                    return lib[op["src"]].with_powder_calibration(cal, comment=op["comment"])
                res, exc = core.capture(mk)
                lib[op["id"]] = res
                m = mod[op["src"]].copy()
                lp = MItem("loop", op["comment"], "pd")
                lp.cols = [["pd_calib_d_to_tof.id", [{"t": "auto"} for _ in op["powers"]]],
                           ["pd_calib_d_to_tof.power",
                            [{"t": "i" if op["int_powers"] else "f", "v": (int(p) if op["int_powers"] else float(p))}
                             for p in op["powers"]]],
                           ["pd_calib_d_to_tof.coeff", [{"t": "f", "v": x} for x in op["coeffs"]]]]
                if op["variances"] is not None:
                    lp.cols.append(["pd_calib_d_to_tof.coeff_su", [{"t": "su", "var": v} for v in op["variances"]]])
                m.content.append(lp)
                mod[op["id"]] = m
                ctx.probe("builder_derived")
            elif o == "set_comment":
                _, exc = core.capture(lambda: setattr(lib[op["cif"]], "comment", op["comment"]))
                mod[op["cif"]].comment = esc(op["comment"])
            elif o == "set_name":
                _, exc = core.capture(lambda: setattr(lib[op["cif"]], "name", op["name"]))
                mod[op["cif"]].name = esc(op["name"])
            elif o in ("save", "save_blocks"):
                n_saves += 1
                self._do_save(scn, ctx, op, lib, mod, n_saves)
                continue
            else:
                raise core.HarnessError(f"unknown op {o}")
            if exc is not None:
                ctx.log("op", o, "raised:" + exc.name)
                ctx.violate("op_raised", f"builder operation {o} raised {exc} for a legal input",
                            kind="op_raised", op=o, exc=exc.name)
                return
            ctx.log("op", o, "ok")
        if scn.get("inplace") and not ctx.violations:
            self._inplace_history(scn, ctx, cif, sc)
        ctx.sim_time_span_s += seams.CLOCK.span_s()
        ctx.count("saves", n_saves)
        for h in self._hz:
            ctx.probe("hazard_" + h)

    # ------------------------------------------------------------------ saves
    def _save_call(self, op, lib, sink, cif):
        if op["op"] == "save_blocks":
            blocks = [lib[b] for b in op["blocks"]]
            # save_cif takes Block | Iterable[Block] | CIF: the container kinds callers use
            kind = op.get("container", "list")
            content = blocks[0] if op.get("single") else {
                "list": lambda: blocks, "tuple": lambda: tuple(blocks),
                "generator": lambda: (b for b in blocks), "iter": lambda: iter(list(blocks)),
                "map": lambda: map(lambda b: b, blocks),
                "dict_values": lambda: {id(b): b for b in blocks}.values()}[kind]()
            return core.capture(cif.save_cif, sink, content, comment=op["comment"])
        b = lib[op["cif"]]
        if op["via"] == "method":
            return core.capture(b.save, sink)
        if op["via"] == "save_cif":
            return core.capture(cif.save_cif, sink, b)
        return core.capture(cif.save_cif, sink, b, comment=op["comment"])

    def _sink(self, scn, ctx, n, **kw):
        if scn["sink"] == "mem":
            return seams.SimStringIO(ctx=ctx, **kw)
        return f"out{n}.cif"

    def _text(self, scn, sink):
        if scn["sink"] == "mem":
            return sink.getvalue()
        with open(sink, newline="") as f:
            return f.read()

    def _do_save(self, scn, ctx, op, lib, mod, n):
        import scippneutron.io.cif as cif

        mode = scn["faults"]["mode"]
        target = scn["faults"].get("save", None)
        # --- fault-free save, judged
        exp = self._expected_doc(op, mod)
        sink = self._sink(scn, ctx, n)
        _, exc = self._save_call(op, lib, sink, cif)
        ctx.log("save", n, "raised:" + exc.name if exc else "returned")
        if exc is not None:
            ctx.violate("save_raised", f"save #{n} raised {exc}", kind="save_raised", exc=exc.name,
                        hazards=sorted(self._hz), found_by=self._found_by())
            return
        text = self._text(scn, sink)
        ctx.log("text", len(text), core.h64(text))
        self._judge(ctx, text, exp, f"save #{n}")
        il = scn.get("interleave")
        if il and il["at_save"] == n and not ctx.violations:
            self._interleaved_save(scn, ctx, op, lib, mod, cif, il, n)
        it = scn.get("interrupt")
        if it and it["at_save"] == n and not ctx.violations:
            self._interrupted_save(scn, ctx, op, lib, mod, cif, it, n)
        if target is not None and target != n:
            return
        # --- fault family on this save: failed saves, then the builder is saved again
        if mode in ("enum_writes", "write_k") and scn["sink"] == "mem":
            W = sink.sim_writes
            if mode == "write_k":
                ks = [scn["faults"]["k"]]
            elif W <= 120:
                ks = list(range(W))
                ctx.probe("crash_points_enumerated_completely")
            else:
                ks = sorted(set(range(30)) | set(range(W - 30, W)) | set(range(0, W, max(1, W // 60))))
                ctx.probe("crash_points_subsampled")
            fired_any = False
            for k in ks:
                s2 = seams.SimStringIO(ctx=ctx, fail_at=k, partial=scn["faults"].get("partial", 0.0),
                                        err=scn["faults"].get("err", "ENOSPC"))
                ctx.fault_configured("enospc_at_write_ordinal")
                _, e2 = self._save_call(op, lib, s2, cif)
                if not s2.sim_fired:
                    continue
                fired_any = True
                ctx.fault_fired("enospc_at_write_ordinal")
                ctx.site("wfault@" + ("heading" if k == 0 else "early" if k < 5 else "body"))
                if e2 is None:
                    ctx.violate("ack_after_failed_write",
                                f"save #{n} returned normally although write #{k} and all later writes "
                                "failed with ENOSPC", kind="ack_after_failed_write",
                                _hint={"write_k": k, "save": n})
            ctx.count("crash_points_tried", len(ks))
            if fired_any:
                exp2 = self._expected_doc(op, mod)
                s3 = seams.SimStringIO(ctx=ctx)
                _, e3 = self._save_call(op, lib, s3, cif)
                ctx.count("retries_after_fault")
                if e3 is not None:
                    ctx.violate("retry_failed", f"after the fault cleared, save #{n} raised {e3}",
                                kind="retry_failed")
                else:
                    self._judge(ctx, s3.getvalue(), exp2, f"save #{n} (retry after faults)")
        elif mode in ("fsize", "fsize_k") and scn["sink"] == "path":
            size = os.path.getsize(sink)
            limits = [scn["faults"]["k"]] if mode == "fsize_k" else sorted(
                {0, 1, size - 1, max(0, size - 100)} | {int(fr * size) for fr in scn["faults"]["fracs"]})
            for k in limits:
                if not 0 <= k < size:
                    continue
                ctx.fault_configured("disk_full_at_byte(RLIMIT_FSIZE)")
                with seams.FsizeLimit(k):
                    _, e2 = self._save_call(op, lib, sink, cif)
                ctx.fault_fired("disk_full_at_byte(RLIMIT_FSIZE)")
                ctx.site("dfull@" + ("head" if k < 64 else "tail" if size - k <= 100 else "body"))
                if e2 is None and os.path.getsize(sink) != size:
                    ctx.violate("ack_truncated_file",
                                f"save #{n} returned normally with the disk full at byte {k}; file has "
                                f"{os.path.getsize(sink)} of {size} bytes", kind="ack_truncated_file",
                                _hint={"fsize_k": k, "save": n})
            exp2 = self._expected_doc(op, mod)
            _, e3 = self._save_call(op, lib, sink, cif)
            ctx.count("retries_after_fault")
            if e3 is not None:
                ctx.violate("retry_failed", f"after the disk-full condition cleared, save #{n} raised {e3}",
                            kind="retry_failed")
            else:
                self._judge(ctx, self._text(scn, sink), exp2, f"save #{n} (retry after disk full)")

    def _inplace_history(self, scn, ctx, cif, sc):
        """History: write a loop, the caller changes one of its own column variables in place,
        write again.  Two loops L1, L2 are built from the SAME variables; only L1 is written
        before the change.  Afterwards L1 (written before) and L2 (never written) must give the
        same rows: what a loop writes must not depend on whether it has been written before.
        (Whether a loop holds its columns by reference or by copy is the library's choice; both
        designs satisfy this, a cache of formatted rows does not.)"""
        ip = scn["inplace"]
        variables = {k: self._col(c) for k, c in ip["cols"]}
        l1 = cif.Loop(dict(variables), comment="")
        l2 = cif.Loop(dict(variables), comment="")
        b1 = cif.Block("ip1", [l1])
        b2 = cif.Block("ip2", [l2])

        def rows(block):
            sink = seams.SimStringIO(ctx=ctx)
            _, exc = core.capture(cif.save_cif, sink, block)
            if exc is not None:
                return None, exc
            try:
                doc = ref_cif.parse(sink.getvalue())
            except ref_cif.CifSyntaxError as e:
                return None, core.ExcInfo(e) if hasattr(core, "ExcInfo") else None
            want = ["_" + k for k, _ in ip["cols"]]
            loops = [it for it in doc["blocks"][0]["items"] if it[0] == "loop" and list(it[1]) == want]
            return (loops[0][2] if loops else None), None

        first, exc = rows(b1)
        if exc is not None or first is None:
            return  # hazard strings etc. are judged by the main program; nothing to compare
        key, c = ip["cols"][ip["col"]]
        new = ip["new"]
        if c["t"] == "so":
            val = sc.scalar(new["v"] if new["v"] is not None else "none", dtype=sc.DType.PyObject)
        elif c["t"] == "fv":
            val = sc.scalar(float(new["v"]), variance=float(new["var"]))
        elif c["t"] == "f":
            val = sc.scalar(float(new["v"]))
        elif c["t"] == "i":
            val = sc.scalar(int(new["v"]), unit=None)
        else:
            val = sc.scalar(str(new["v"]))
        variables[key]["row", ip["row"]] = val  # the caller's own statement, not a library call
        ctx.log("caller_mutates_column_in_place", key, ip["row"])
        ctx.probe("caller_changed_own_column_between_saves")
        writer = {"same_block": lambda: b1, "block_copy": lambda: b1.copy(),
                  "builder": lambda: cif.Block("ip1", [l1])}[ip["via"]]()
        again, e1 = rows(writer)
        fresh, e2 = rows(b2)
        if e1 is not None or e2 is not None or again is None or fresh is None:
            return
        if [[c[1] for c in r] for r in again] != [[c[1] for c in r] for r in fresh]:
            ctx.violate("value", f"a loop written before and after the caller changed column {key!r} in place "
                        f"(row {ip['row']}) now writes {[[c[1] for c in r] for r in again]!r}, while an identical loop over the "
                        f"same variables that is written for the first time writes {[[c[1] for c in r] for r in fresh]!r}",
                        kind="value:depends_on_earlier_write", hazards=[], found_by="history")
        ctx.count("inplace_histories_checked")

    def _interleaved_save(self, scn, ctx, op, lib, mod, cif, il, n):
        """Two callers: while this save is at one of its scheduling points -- a line boundary of
        scippneutron/io/cif.py (by event ordinal or first execution of a distinct line) or inside
        one of its write() calls -- another caller saves an object that was saved before.  Both
        documents must be what was supplied.  With il['sweep'] every distinct line and every
        write() of this save is used once."""
        saves = [o for o in scn["ops"] if o["op"] in ("save", "save_blocks")]
        other = saves[il["other_save"] - 1]
        prefixes = (cif.__file__,)
        deltas = seams.CLOCK.deltas
        seams.CLOCK.deltas = [0.0]  # both callers read the same instant (dates are in the model)
        try:
            counter = seams.Preemptor(prefixes, {})
            csink = seams.SimStringIO(ctx=ctx)
            _, e0 = counter.run(lambda: self._save_call(op, lib, csink, cif))
            if e0 is not None:
                return
            totals = {"line": counter.ordinal, "site": len(counter.site_order), "write": csink.sim_writes}
            if il.get("sweep"):
                part, of = il["sweep"]
                pts = [("site", k) for k in range(totals["site"])] + [("write", k) for k in range(totals["write"])]
                pts = [pt for m, pt in enumerate(pts) if m % of == part]
                ctx.count("interleaving_points_enumerated", len(pts))
            else:
                where = il.get("where", "line")
                total = totals[where]
                pts = [(where, il["at"] if "at" in il else (min(total - 1, int(il["frac"] * total)) if total else 0))]
            for where, at in pts:
                if ctx.violations:
                    break
                self._interleave_once(ctx, op, other, lib, mod, cif, il, n, where, at, totals[where], prefixes)
        finally:
            seams.CLOCK.deltas = deltas

    def _interrupted_save(self, scn, ctx, op, lib, mod, cif, it, n):
        """The caller is interrupted (Ctrl-C, cancelled task) at one scheduling point of this save;
        the process and the objects survive.  Saving the same object again, and afterwards every
        other save of the program, must give complete documents with what was supplied."""
        prefixes = (cif.__file__,)
        counter = seams.Preemptor(prefixes, {})
        counter.early_k = 6
        csink = seams.SimStringIO(ctx=ctx)
        _, e0 = counter.run(lambda: self._save_call(op, lib, csink, cif))
        if e0 is not None:
            return
        totals = {"line": counter.ordinal, "write": csink.sim_writes}
        if it.get("sweep"):
            part, of = it["sweep"]
            pts = [("line", k) for k in counter.early] + [("write", k) for k in range(totals["write"])]
            pts = [pt for m, pt in enumerate(pts) if m % of == part]
            ctx.count("interruption_points_enumerated", len(pts))
        else:
            where = it.get("where", "line")
            total = totals[where]
            pts = [(where, it["at"] if "at" in it else (min(total - 1, int(it["frac"] * total)) if total else 0))]
        for where, at in pts:
            if ctx.violations:
                break
            kind = {"line": "interrupt_at_line", "write": "interrupt_in_write"}[where]
            ctx.fault_configured(kind)
            try:
                if where == "write":
                    self._save_call(op, lib, seams.SimStringIO(ctx=ctx, yield_at={at: seams.interrupt_now}), cif)
                else:
                    seams.Preemptor(prefixes, {at: seams.interrupt_now}).run(
                        lambda: self._save_call(op, lib, seams.SimStringIO(ctx=ctx), cif))
                ctx.probe("interruption_point_not_reached")
                continue
            except seams.SimInterrupt:
                pass
            ctx.fault_fired(kind)
            ctx.log("interrupted", where, at, totals[where])
            hint = {"int_where": where, "int_at": at}
            n0 = len(ctx.violations)
            exp2 = self._expected_doc(op, mod)
            s2 = seams.SimStringIO(ctx=ctx)
            _, e2 = self._save_call(op, lib, s2, cif)
            if e2 is not None:
                # a refusal after an abnormal exit produces no document: the statement is about the
                # documents that ARE produced -> counted, not an alarm (on the pinned tree an
                # interruption inside the builder's id generator makes every later save of that
                # builder raise StopIteration)
                ctx.probe("object_refuses_to_save_after_interruption")
                ctx.log("refused_after_interrupt", e2.name)
            else:
                self._judge(ctx, s2.getvalue(), exp2, f"save #{n} again after an interruption at {where} {at}/{totals[where]}")
            for v in ctx.violations[n0:]:
                v.setdefault("hint", {}).update(hint)

    def _interleave_once(self, ctx, op, other, lib, mod, cif, il, n, where, at, total, prefixes):
        kind = {"line": "preempt_in_save", "site": "preempt_at_source_line", "write": "preempt_in_write"}[where]
        exp_m, exp_o = self._expected_doc(op, mod), self._expected_doc(other, mod)
        sink_o = seams.SimStringIO(ctx=ctx)
        state = {}
        ctx.fault_configured(kind)

        def cb(frame):
            at_s = "write" if where == "write" else f"{frame.f_code.co_name}:{frame.f_lineno}"
            ctx.log("preempt", at_s, where, at, total)
            ctx.site("preempt@cif:" + ("write" if where == "write" else frame.f_code.co_name))
            state["at"] = at_s
            state["res"] = self._save_call(other, lib, sink_o, cif)

        if where == "write":
            # this caller blocks in its at-th write(); the other caller's save runs meanwhile
            sink_m = seams.SimStringIO(ctx=ctx, yield_at={at: cb})
            _, e1 = self._save_call(op, lib, sink_m, cif)
        else:
            sink_m = seams.SimStringIO(ctx=ctx)
            pre = seams.Preemptor(prefixes, {at: cb} if where == "line" else {},
                                  site_points={at: cb} if where == "site" else None)
            pre.once = True
            _, e1 = pre.run(lambda: self._save_call(op, lib, sink_m, cif))
        if "res" not in state:
            ctx.probe("preemption_point_not_reached")
            return
        ctx.fault_fired(kind)
        ctx.probe("two_saves_interleaved")
        desc = f"{where} {at}/{total} = {state['at']}"
        hint = {"il_where": where, "il_at": at}
        n0 = len(ctx.violations)
        e2 = state["res"][1]
        for who, e in (("pre-empted", e1), ("pre-empting", e2)):
            if e is not None:
                ctx.violate("save_raised", f"save #{n} interleaved at {desc}: the {who} "
                            f"caller's save raised {e}", kind="interleaved_save_raised", exc=e.name,
                            hazards=sorted(self._hz), found_by="interleaving", _hint=hint)
                return
        self._judge(ctx, sink_m.getvalue(), exp_m, f"save #{n}, pre-empted at {desc}")
        self._judge(ctx, sink_o.getvalue(), exp_o, f"save #{il['other_save']} run inside save #{n} ({desc})")
        for v in ctx.violations[n0:]:
            v.setdefault("hint", {}).update(hint)

    def _found_by(self):
        return "workload value" if self._hz - {"empty", "quote", "both_quotes", "non_ascii", "multiline"} else "program"

    # --------------------------------------------------------- expected docs
    def _block_items(self, mb: MBlock):
        import scippneutron.io.cif as cif

        items = []
        sch = mb.schema()
        if sch:
            consts = {"core": cif.CORE_SCHEMA, "pd": cif.PD_SCHEMA}
            items.append(("schema", {(consts[s].name, consts[s].version, consts[s].location) for s in sch}))
        for it in mb.content:
            if it.kind == "chunk":
                for k, v in it.pairs:
                    items.append(("pair", "_" + k, v))
            else:
                n = len(it.cols[0][1]) if it.cols else 0
                rows = [[c[1][r] for c in it.cols] for r in range(n)]
                items.append(("loop", ["_" + c[0] for c in it.cols], rows))
        return items

    def _expected_doc(self, op, mod):
        if op["op"] == "save_blocks":
            return {"blocks": [{"name": mod[b].name, "items": self._block_items(mod[b])}
                               for b in op["blocks"]]}
        m: MCif = mod[op["cif"]]
        content = []
        audit = MItem("chunk", "", "core")
        now = seams.CLOCK.t.replace(microsecond=0)
        audit.pairs = [["audit.creation_date", {"t": "now", "v": now.isoformat()}],
                       ["audit.creation_method", {"t": "auto"}]]
        if len(m.reducers) == 1:
            audit.pairs.append(["computing.diffrn_reduction", {"t": "s", "v": m.reducers[0]}])
        content.append(audit)
        if len(m.reducers) > 1:
            lp = MItem("loop", "", "core")
            lp.cols = [["computing.diffrn_reduction", [{"t": "s", "v": r} for r in m.reducers]]]
            content.append(lp)
        contact = [a for a in m.authors if a["corresponding"]]
        regular = [a for a in m.authors if not a["corresponding"]]
        with_role = []
        for group, cat in ((contact, "audit_contact_author"), (regular, "audit_author")):
            if not group:
                continue
            cols = []
            for key, tag in (("name", "name"), ("email", "email"), ("address", "address")):
                # the name column is always there (a loop needs at least one column)
                if key == "name" or any(a[key] for a in group):
                    cols.append([f"{cat}.{tag}", [{"t": "s", "v": a[key] or ""} for a in group]])
            if any(a["orcid_id"] for a in group):
                def url(x):
                    return "" if not x else (x if x.startswith("https://") else "https://orcid.org/" + x)
                cols.append([f"{cat}.id_orcid", [{"t": "s", "v": url(a["orcid_id"])} for a in group]])
            if any(a["role"] for a in group):
                cols.append([f"{cat}.id", [{"t": "id", "role": a["role"]} for a in group]])
            with_role += [a for a in group if a["role"]]
            if len(group) == 1:
                ch = MItem("chunk", "", "core")
                ch.pairs = [[c[0], c[1][0]] for c in cols]
                content.append(ch)
            else:
                lp = MItem("loop", "", "core")
                lp.cols = cols
                content.append(lp)
        if with_role:
            lp = MItem("loop", "", "core")
            lp.cols = [["audit_author_role.id", [{"t": "idref"} for _ in with_role]],
                       ["audit_author_role.role", [{"t": "s", "v": a["role"]} for a in with_role]]]
            content.append(lp)
        content += m.content
        mb = MBlock(m.name, content, "", None)
        mb.name = m.name
        return {"blocks": [{"name": m.name, "items": self._block_items(mb)}]}

    # ----------------------------------------------------------------- judge
    def _match(self, spec, got):
        kind, text = got
        t = spec["t"]
        norm = lambda s: s.replace("\r\n", "\n").replace("\r", "\n").strip(WS)  # noqa: E731
        if t == "s":
            e = norm(esc(spec["v"]))
            if norm(text) != e:
                return f"string {spec['v']!r} came back as {text!r} ({kind})"
            return None
        if t == "auto":
            return None if text.strip(WS) else "automatic value is empty"
        if t in ("id", "idref"):
            return None if text.strip(WS) else "empty id"
        if t == "now":
            # the creation date is the library's own contribution: it must be a date; which instant
            # it shows is not part of the property (with the clock seam in place it is the scripted one)
            import datetime as dt

            try:
                dt.datetime.fromisoformat(text)
            except ValueError:
                return f"creation date {text!r} is not an ISO 8601 date-time"
            return None
        if t == "date":
            import datetime as dt

            e = dt.datetime.fromisoformat(spec["v"]).isoformat()
            return None if text == e else f"datetime {e} came back as {text!r}"
        if kind != "unquoted":
            return f"number came back as a {kind} string {text!r}"
        num = ref_cif.parse_number(text)
        if t == "i":
            try:
                ok = int(text) == spec["v"]
            except ValueError:
                ok = False
            return None if ok else f"integer {spec['v']} came back as {text!r}"
        if num is None:
            return f"{text!r} is not a CIF number (supplied {spec})"
        val, su = num
        if t == "f" or (t == "var" and spec["var"] is None):
            return None if (su is None and val == float(spec["v"])) else \
                f"number {spec['v']!r} came back as {text!r}"
        if t == "su":
            e = math.sqrt(spec["var"])
            ok = su is None and abs(val - e) <= 2 * math.ulp(e)
            return None if ok else f"standard uncertainty sqrt({spec['var']!r})={e!r} came back as {text!r}"
        if t == "var":
            e_su = math.sqrt(spec["var"])
            if su is None:
                ok = spec["var"] == 0.0 and val == float(spec["v"])
                return None if ok else f"value with variance {spec} written without (su): {text!r}"
            # the su is printed rounded to its leading digit(s) and the value is rounded to the
            # same decimal place: accept one unit of the su's leading digit for both
            q = 10.0 ** math.floor(math.log10(e_su)) if e_su > 0 else 0.0
            if abs(su - e_su) > q * (1 + 1e-9):
                return f"su of {spec}: printed {text!r} -> su {su!r}, expected {e_su!r} (quantum {q})"
            if abs(val - spec["v"]) > max(q, 4 * math.ulp(spec["v"])) * (1 + 1e-9):
                return f"value of {spec}: printed {text!r} -> {val!r} (quantum {q})"
            return None
        raise core.HarnessError(f"bad spec {spec}")

    def _judge(self, ctx, text, exp, where):
        hz = sorted(self._hz)
        fb = self._found_by()

        unrep = "semicolon_line_in_text" in self._hz
        noname = any(b["name"] == "" for b in exp["blocks"])
        if noname:
            ctx.probe("hazard_empty_block_name")
            hz = sorted(set(hz) | {"empty_block_name"})
        duptags = False
        for b in exp["blocks"]:
            tags = []
            for it in b["items"]:
                if it[0] == "pair":
                    tags.append(it[1])
                elif it[0] == "loop":
                    tags.extend(it[1])
            duptags = duptags or len(set(tags)) != len(tags)
        if duptags:
            ctx.probe("hazard_item_kind_given_twice")
            hz = sorted(set(hz) | {"item_kind_given_twice"})

        def bad(kind, msg, **sig):
            # runs that contain a string with no CIF 1.1 representation (or a block without a
            # name) form their own group so that the known finding about them can never absorb
            # another violation
            ctx.violate(kind.split(":")[0], f"[{where}] {msg}", kind=kind, hazards=hz, found_by=fb,
                        group=kind + ("|unrepresentable-string-present" if unrep else "")
                        + ("|empty-block-name-present" if noname else "")
                        + ("|item-kind-given-twice" if duptags else ""), **sig)

        non_ascii = [c for c in text if ord(c) > 127]
        if non_ascii:
            bad("ascii", f"output contains non-ASCII characters {non_ascii[:5]!r}")
        try:
            doc = ref_cif.parse(text)
        except ref_cif.CifSyntaxError as e:
            bad("syntax", f"independent CIF 1.1 parser rejects the output: {e} "
                f"[production {e.production}] near {text.splitlines()[e.line - 1][:60]!r}"
                if 0 < e.line <= len(text.splitlines()) else f"parser rejects output: {e}",
                production=e.production)
            return
        ctx.count("documents_parsed")
        if doc["warnings"]:
            ctx.probe("line_longer_than_2048")
        got_blocks = doc["blocks"]
        if len(got_blocks) != len(exp["blocks"]):
            bad("structure:blocks", f"{len(got_blocks)} data blocks parsed, {len(exp['blocks'])} saved")
            return
        for gb, eb in zip(got_blocks, exp["blocks"], strict=True):
            if gb["name"] != eb["name"]:
                bad("structure:block_name", f"block name {gb['name']!r}, supplied {eb['name']!r}")
            gi, ei = gb["items"], eb["items"]
            sig_g = [(x[0], tuple(x[1]) if x[0] == "loop" else x[1]) for x in gi]
            sig_e = [("loop", ("_audit_conform.dict_name", "_audit_conform.dict_version",
                               "_audit_conform.dict_location")) if x[0] == "schema"
                     else (x[0], tuple(x[1]) if x[0] == "loop" else x[1]) for x in ei]
            if sig_g != sig_e:
                k = next((i for i, (a, b) in enumerate(zip(sig_g, sig_e, strict=False)) if a != b),
                         min(len(sig_g), len(sig_e)))
                bad("structure:items", f"block {eb['name']!r}: item {k} differs: parsed "
                    f"{sig_g[k] if k < len(sig_g) else 'nothing'}, supplied "
                    f"{sig_e[k] if k < len(sig_e) else 'nothing'} ({len(sig_g)} vs {len(sig_e)} items)")
                continue
            author_ids: list[tuple[str, str | None]] = []
            role_rows: list[tuple[str, str]] = []
            for g, e in zip(gi, ei, strict=True):
                if e[0] == "schema":
                    rows = {tuple(c[1] for c in r) for r in g[2]}
                    if rows != e[1] or len(g[2]) != len(e[1]):
                        bad("value:schema", f"schema loop rows {sorted(rows)} != {sorted(e[1])}")
                elif e[0] == "pair":
                    err = self._match(e[2], g[2])
                    if err:
                        bad("value:pair", f"{e[1]}: {err}", vtype=e[2]["t"])
                    if e[2]["t"] == "id":
                        author_ids.append((g[2][1].strip(WS), e[2]["role"]))
                else:
                    if len(g[2]) != len(e[2]):
                        bad("structure:loop_rows", f"loop {e[1]}: {len(g[2])} rows parsed, {len(e[2])} supplied")
                        continue
                    for r, (grow, erow) in enumerate(zip(g[2], e[2], strict=True)):
                        cur_id = None
                        for c, (gv, ev) in enumerate(zip(grow, erow, strict=True)):
                            err = self._match(ev, gv)
                            if err:
                                bad("value:loop", f"loop column {e[1][c]} row {r}: {err}", vtype=ev["t"])
                            if ev["t"] == "id":
                                author_ids.append((gv[1].strip(WS), ev["role"]))
                            if ev["t"] == "idref":
                                cur_id = gv[1].strip(WS)
                            elif cur_id is not None and ev["t"] == "s":
                                role_rows.append((cur_id, ev["v"]))
                ctx.count("items_compared")
            # author-role linkage
            ids = [i for i, _ in author_ids]
            if len(set(ids)) != len(ids):
                bad("roles:duplicate_id", f"author ids are not unique: {ids}")
            for rid, role in role_rows:
                owners = [r for i, r in author_ids if i == rid]
                if len(owners) != 1:
                    bad("roles:dangling", f"role id {rid!r} refers to {len(owners)} author ids ({ids})")
                elif owners[0] != role:
                    bad("roles:wrong_author", f"role {role!r} is attached to id {rid!r} whose author "
                        f"has role {owners[0]!r}")
            want_roles = sum(1 for _, r in author_ids if r)
            if want_roles != len(role_rows) and author_ids:
                bad("roles:count", f"{want_roles} authors with a role, {len(role_rows)} role rows")
            if role_rows:
                ctx.probe("role_loop_checked")

    # -------------------------------------------------------------- reporting
    def nontrivial(self, scn, res):
        c, p = res["counters"], res["probes"]
        if not c.get("documents_parsed"):
            return False
        fired = sum(v[1] for v in res["faults"].values())
        hz = any(k.startswith("hazard_") for k in p)
        return bool(c.get("saves", 0) >= 2 or p.get("builder_derived") or fired or hz)

    def counterfactual(self, name, scn):
        if name == "no_semicolon_lines":
            return _neutralise_semicolon_lines(scn)
        if name == "no_item_kind_twice":
            c = copy.deepcopy(scn)
            used: dict[int, set] = {}
            kinds = {"with_beamline": "beamline", "with_powder": "powder", "with_calibration": "calibration"}
            for op in c["ops"]:
                o = op["op"]
                if o == "cif":
                    used[op["id"]] = set()
                elif o in kinds:
                    u = used.get(op["src"], set())
                    if kinds[o] in u:
                        keep = {"op": "copy", "src": op["src"], "id": op["id"]}
                        op.clear()
                        op.update(keep)
                        used[op["id"]] = set(u)
                    else:
                        used[op["id"]] = u | {kinds[o]}
                elif "src" in op and "id" in op:
                    used[op["id"]] = set(used.get(op["src"], set()))
            return c
        if name == "no_empty_block_names":
            c = copy.deepcopy(scn)
            for op in c["ops"]:
                if op.get("name") == "" and op["op"] in ("block", "cif", "set_name", "block_set_name"):
                    op["name"] = "x"
            return c
        raise core.HarnessError(f"unknown counterfactual {name}")

    def describe(self, scn):
        s = copy.deepcopy(scn)
        if len(s["ops"]) > 6:
            s["ops"] = s["ops"][:6] + [f"... {len(scn['ops']) - 6} more ops"]
        return s

    def shrink(self, scn, violation=None):
        s = scn
        hint = (violation or {}).get("hint") or {}
        if "write_k" in hint and s["faults"]["mode"] == "enum_writes":
            c = copy.deepcopy(s)
            c["faults"] = {"mode": "write_k", "err": s["faults"].get("err", "ENOSPC"), "k": hint["write_k"], "save": hint["save"]}
            yield c
        if "fsize_k" in hint and s["faults"]["mode"] == "fsize":
            c = copy.deepcopy(s)
            c["faults"] = {"mode": "fsize_k", "k": hint["fsize_k"], "save": hint["save"]}
            yield c
        if s["faults"]["mode"] != "none":
            c = copy.deepcopy(s)
            c["faults"] = {"mode": "none"}
            yield c
        if s.get("interleave") and "il_where" in hint and (
                s["interleave"].get("sweep") or s["interleave"].get("at") != hint["il_at"]):
            c = copy.deepcopy(s)
            c["interleave"] = {k: v for k, v in s["interleave"].items() if k not in ("sweep", "frac")}
            c["interleave"].update(where=hint["il_where"], at=hint["il_at"])
            yield c
        if s.get("interleave"):
            c = copy.deepcopy(s)
            del c["interleave"]
            yield c
        if s.get("interrupt") and "int_where" in hint and (
                s["interrupt"].get("sweep") or s["interrupt"].get("at") != hint["int_at"]):
            c = copy.deepcopy(s)
            c["interrupt"] = {"at_save": s["interrupt"]["at_save"], "where": hint["int_where"], "at": hint["int_at"]}
            yield c
        if s.get("interrupt"):
            c = copy.deepcopy(s)
            del c["interrupt"]
            yield c
        if s.get("inplace"):
            c = copy.deepcopy(s)
            del c["inplace"]
            yield c
            if len(s["ops"]) > 0:
                c = copy.deepcopy(s)
                c["ops"] = []
                yield c
        if s["sink"] != "mem" and s["faults"]["mode"] == "none":
            c = copy.deepcopy(s)
            c["sink"] = "mem"
            yield c
        ops = s["ops"]
        # dependency-aware op removal
        for k in reversed(range(len(ops))):
            c = _drop_op(s, k)
            if c is not None:
                yield c
        # structural reductions inside ops (before any per-string work: far fewer candidates)
        for k, op in enumerate(ops):
            if op["op"] == "loop" and op["n"] > 1 and not any(
                    o["op"] == "loop_set" and o["loop"] == op["id"] for o in ops):
                n0 = op["n"]
                cuts = [(0, n0 // 2), (n0 // 2, n0)] + ([(j, j + 1) for j in range(n0)] if n0 <= 8 else [])
                for lo, hi in cuts:
                    c = copy.deepcopy(s)
                    c["ops"][k]["n"] = hi - lo
                    for col in c["ops"][k]["cols"]:
                        col[1]["v"] = col[1]["v"][lo:hi]
                        if "var" in col[1]:
                            col[1]["var"] = col[1]["var"][lo:hi]
                    yield c
            for key in ("pairs", "cols", "authors", "reducers"):
                if isinstance(op.get(key), list) and len(op[key]) > 1:
                    for j in range(len(op[key])):
                        c = copy.deepcopy(s)
                        del c["ops"][k][key][j]
                        yield c
            if op["op"] == "with_powder" and op["n"] > 1:
                c = copy.deepcopy(s)
                o2 = c["ops"][k]
                o2["n"] = 1
                for key in ("values", "variances", "coord", "coord_var"):
                    if o2[key] is not None:
                        o2[key] = o2[key][:1]
                yield c
            if op["op"] == "save_blocks" and len(op["blocks"]) > 1:
                for j in range(len(op["blocks"])):
                    c = copy.deepcopy(s)
                    del c["ops"][k]["blocks"][j]
                    yield c
        # all harmless-looking strings of an op at once, then one by one
        for k, op in enumerate(ops):
            sites = _string_sites(op)
            plain = [(p, v) for p, v in sites if v not in ("", "a") and not (set(hazards(v)) - {"quote"})]
            if len(plain) > 1:
                c = copy.deepcopy(s)
                for path, _ in plain:
                    _set_path(c["ops"][k], path, "a")
                yield c
        for k, op in enumerate(ops):
            for path, val in _string_sites(op):
                for repl in _simpler_strings(val):
                    c = copy.deepcopy(s)
                    _set_path(c["ops"][k], path, repl)
                    yield c


def _lineage_has_roles(ops, cif_id) -> bool:
    """Does the builder saved under ``cif_id`` descend from a with_authors call with a role?"""
    by_id = {o["id"]: o for o in ops if "id" in o}
    seen = set()
    while cif_id in by_id and cif_id not in seen:
        seen.add(cif_id)
        o = by_id[cif_id]
        if o["op"] == "with_authors" and any(a.get("role") for a in o["authors"]):
            return True
        cif_id = o.get("src")
    return False


def _neutralise_semicolon_lines(scn: dict) -> dict:
    import re

    c = copy.deepcopy(scn)

    def walk(x):
        if isinstance(x, str):
            return re.sub(r"(\r\n|\n|\r);", r"\1 ;", x)
        if isinstance(x, list):
            return [walk(y) for y in x]
        if isinstance(x, dict):
            return {k: (walk(v) if k not in ("op", "t") else v) for k, v in x.items()}
        return x

    c["ops"] = walk(c["ops"])
    return c


def _refs(op) -> set:
    r = set()
    for key in ("src", "cif", "block", "chunk", "loop"):  # incl. the *_bad ops
        if key in op:
            r.add(op[key])
    if op["op"] == "block":
        r |= {x for x in op["content"] if isinstance(x, int)}
    if op["op"] == "block_add" and isinstance(op["item"], int):
        r.add(op["item"])
    if op["op"] == "save_blocks":
        r |= set(op["blocks"])
    return r


def _drop_op(s, k):
    ops = s["ops"]
    op = ops[k]
    dead = {op["id"]} if "id" in op else set()
    keep = []
    for j, o in enumerate(ops):
        if j == k:
            continue
        if j > k and (_refs(o) & dead):
            if o["op"] == "block" and not ({o.get("src")} & dead):
                o = copy.deepcopy(o)
                o["content"] = [x for x in o["content"] if x not in dead]
            elif o["op"] == "save_blocks" and len(set(o["blocks"]) - dead) > 0:
                o = copy.deepcopy(o)
                o["blocks"] = [b for b in o["blocks"] if b not in dead]
            else:
                if "id" in o:
                    dead.add(o["id"])
                continue
        keep.append(o)
    if not any(o["op"] in ("save", "save_blocks") for o in keep):
        return None
    c = copy.deepcopy(s)
    c["ops"] = copy.deepcopy(keep)
    return c


def _string_sites(op):
    out = []

    def walk(x, path):
        if isinstance(x, str) and path and path[-1] not in ("op", "t", "via", "type", "dim", "unit", "schema"):
            out.append((path, x))
        elif isinstance(x, list):
            for i, y in enumerate(x):
                walk(y, [*path, i])
        elif isinstance(x, dict):
            for kk, y in x.items():
                if kk in ("op", "t", "via", "dim", "unit", "schema", "email", "orcid_id", "name") and not (
                        kk == "name" and x.get("op") is None):
                    continue
                walk(y, [*path, kk])

    walk(op, [])
    return out


def _simpler_strings(v: str):
    if v == "":
        return
    yield "a"
    if len(v) > 1:
        yield v[: len(v) // 2]
        yield v[len(v) // 2:]
        if len(v) > 64:
            # length thresholds: keep the size, simplify the content; then shrink geometrically
            yield "A" * len(v)
            for d in (4, 16, 64, 256, 1024):
                if len(v) // d > 1:
                    yield v[: -(len(v) // d)]
        yield v[1:]
        yield v[:-1]


def _set_path(obj, path, val):
    for p in path[:-1]:
        obj = obj[p]
    obj[path[-1]] = val


def make_engine(prop):
    return CifEngine()
