"""C12 / C13 — the SQW writer and reader under seeded builder programs, knobs
(chunk size, byte order, sink kind, clock) and write faults.

One engine, two oracles: C12 judges the container structure (and the
acknowledgement rule under write faults), C13 judges the content and the package's
own reader.
"""

from __future__ import annotations

import copy
import math
import os
import sys
import warnings

import numpy as np

from .. import core, ref_sqw, seams
from . import Engine

PIX_ROWS = ("u1", "u2", "u3", "u4", "irun", "idet", "ien", "signal", "error")
ROW_UNITS = ("1/angstrom", "1/angstrom", "1/angstrom", "meV", None, None, None, "count", "count**2")
Q_UNITS = ["1/angstrom", "1/angstrom", "1/nm", "10/angstrom", "1/pm"]
E_UNITS = ["meV", "meV", "eV", "ueV"]
C_UNITS = ["count", "count", "Mcount", "kcount"]
ANG_UNITS = ["rad", "deg", "mrad"]
LEN_UNITS = ["angstrom", "nm", "pm"]
CANON_ORDER = (
    ("", "main_header"), ("", "detpar"), ("data", "metadata"), ("data", "nd_data"),
    ("experiment_info", "instruments"), ("experiment_info", "samples"),
    ("experiment_info", "expdata"), ("pix", "metadata"), ("pix", "data_wrap"),
)
NATIVE = "<" if sys.byteorder == "little" else ">"


# =============================================================================
# generation (pure python)


def _gstr(rng, maxlen=40, allow_empty=True) -> str:
    r = rng.random()
    if allow_empty and r < 0.15:
        return ""
    if r < 0.25:
        n = rng.choice([1, 2, 255, 256, 257, 300])
    else:
        n = rng.randrange(1, maxlen + 1)
    n = min(n, 300)
    alphabet = "abcdefghijklmnopqrstuvwxyzABCDEFGHIJKLMNOPQRSTUVWXYZ0123456789 _-./:;,()[]{}#'\"\\%&*+=<>?@^~|!$`"
    r = rng.random()
    if r < 0.15:
        # text as users have it: accents, units, CJK, astral plane, control characters, NUL
        alphabet += "\u00e9\u00df\u00b5\u00c5\u212b\u65e5\u672c\u8a9e\U0001d6fc\x00\t\n\x7f\x1b"
    out = "".join(rng.choice(alphabet) for _ in range(n))
    if 0.15 <= r < 0.19:
        # fixed-width fields (HDF5 / NeXus) arrive NUL- or blank-padded
        out = out[: max(1, n - 16)] + rng.choice(["\x00", " "]) * rng.randrange(1, 16)
    return out


def _gfloat(rng) -> float:
    r = rng.random()
    if r < 0.1:
        return 0.0
    if r < 0.2:
        return float(rng.randrange(-10, 11))
    if r < 0.3:
        return rng.choice([1e-20, -1e-20, 1e12, -1e12, 5e-324, 1.0000001, 16777217.0])
    return rng.uniform(-100.0, 100.0) * 10 ** rng.randrange(-3, 4)


def _gen_experiment(rng, j: int, indirect: bool, n_det: int, n_en: int) -> dict:
    au = lambda: rng.choice(ANG_UNITS)  # noqa: E731
    e = {
        "run_id": j if rng.random() < 0.7 else rng.randrange(0, 1000),
        "emode": 2 if indirect else 1,
        "psi": [_gfloat(rng) % 400.0, au()],
        "omega": [rng.uniform(-7, 7), au()],
        "dpsi": [rng.uniform(-1, 1), au()],
        "gl": [rng.uniform(-4, 4), au()],
        "gs": [rng.uniform(-4, 4), au()],
        "u": [_gfloat(rng) for _ in range(3)],
        "v": [_gfloat(rng) for _ in range(3)],
        "filename": _gstr(rng, 20),
        "filepath": _gstr(rng, 30),
    }
    eu = rng.choice(E_UNITS)
    if indirect:
        e["efix"] = [[abs(_gfloat(rng)) + 0.1 for _ in range(n_det)], eu]
        e["en"] = [[[rng.uniform(-50, 50) for _ in range(n_en)] for _ in range(n_det)],
                   rng.choice(E_UNITS), rng.choice(["de", "ed"])]
    else:
        e["efix"] = [abs(_gfloat(rng)) + 0.1, eu]
        e["en"] = [[rng.uniform(-50, 50) for _ in range(n_en)], rng.choice(E_UNITS), "e"]
    # energy grids as loaded from files (float32) or made with arange (int64)
    e["en_dtype"] = rng.choice(["float64", "float64", "float64", "float32", "int64"])
    return e


def _gen_pix(rng, tier: str, chunk_hint=None) -> dict:
    r = rng.random()
    if r < 0.25:
        n = rng.choice([0, 1, 2, 8, 9, 10])
    elif r < 0.75:
        n = int(10 ** rng.uniform(0, 3.3))
    elif r < 0.85:
        # around multiples of plausible block sizes: k*B - 1, k*B, k*B + 1
        b = rng.choice([100, 1000, 1024, 4096, 8192])
        cap = 100000 if tier == "thorough" else 20000
        n = max(0, min(cap, b * rng.randrange(1, max(2, cap // b + 1)) + rng.choice([-1, 0, 1])))
    else:
        n = int(10 ** rng.uniform(3.3, 5.0 if tier == "thorough" else 4.3))
    return {
        "n": n,
        "seed": rng.randrange(1 << 32),
        "vdtype": rng.choice(["float64", "float64", "float32"]),
        # ids as integers, or as floats (pixels read back from an SQW file are float32 throughout)
        "idtype": rng.choice(["int64", "int64", "int32", "float32", "float64"]),
        "dist": rng.choice(["uniform", "uniform", "ints", "wide"]),
        # dtype of the four coordinate rows (default: that of the signal) and integer ids beyond 2**53
        "cdtype": rng.choice([None, None, None, "int64", "int32"]),
        "id_edge": rng.random() < 0.15,
        "coord_order": rng.randrange(1, 1 << 20) if rng.random() < 0.4 else 0,
        "units": {
            "u1": rng.choice(Q_UNITS), "u2": rng.choice(Q_UNITS), "u3": rng.choice(Q_UNITS),
            "u4": rng.choice(E_UNITS), "signal": rng.choice(C_UNITS),
        },
        "extra_coord": rng.choice(["extra", "signal", "error", "npix", "u5", "detector", "obs"]) if rng.random() < 0.25 else False,
        # memory layout of what the caller hands over: own buffers, a window into longer
        # buffers (offset view), or one column of a 2-d array (strided, non-contiguous view)
        "layout": rng.choice(["plain", "plain", "slice", "strided"]),
    }


def _gen_dnd(rng) -> dict:
    n_axes = 4  # Horace histograms are always 4-d (labels, scales, ranges have 4 entries)
    while True:
        nb = [rng.choice([1, 1, 2, 3, 4, 5, 8, 10, 16, 32, 50, 64]) for _ in range(n_axes)]
        if math.prod(nb) <= 20000:
            break
    if rng.random() < 0.12:
        # element counts on buffer-size boundaries (k * 2**m): split the exponent over the axes
        m = rng.choice([10, 11, 12, 13, 13, 13, 14])
        e = [0, 0, 0, 0]
        for _ in range(m):
            e[rng.randrange(4)] += 1
        nb = [2 ** x for x in e]
        if rng.random() < 0.3 and math.prod(nb) * 3 <= 50000:
            nb[rng.randrange(4)] *= 3
    if rng.random() < 0.03:
        # megabin histograms (e.g. 1024 x 1024 images): 2**20 or 2**21 elements, tens of MB
        m = rng.choice([20, 20, 21])
        e = [0, 0, 0, 0]
        for _ in range(m):
            e[rng.randrange(4)] += 1
        nb = [2 ** x for x in e]
    qs = lambda: [_gfloat(rng), rng.choice(Q_UNITS)]  # noqa: E731
    es = lambda: [_gfloat(rng), rng.choice(E_UNITS)]  # noqa: E731
    rngs = [[[_gfloat(rng), _gfloat(rng)], rng.choice(Q_UNITS)] for _ in range(3)] + [
        [[_gfloat(rng), _gfloat(rng)], rng.choice(E_UNITS)]]
    perm = list(range(n_axes))
    rng.shuffle(perm)
    return {
        "axes": {
            "title": _gstr(rng), "label": [_gstr(rng, 8) for _ in range(4)],
            "img_scales": [qs(), qs(), qs(), es()], "img_range": rngs,
            "n_bins": nb, "single_bin": [rng.random() < 0.5 for _ in range(n_axes)],
            "dax": perm, "offset": [qs(), qs(), qs(), es()],
            "changes_aspect_ratio": rng.random() < 0.5,
            "filename": _gstr(rng, 10), "filepath": _gstr(rng, 10),
        },
        "proj": {
            "alatt": [[abs(_gfloat(rng)) + 0.5 for _ in range(3)], rng.choice(LEN_UNITS)],
            "angdeg": [[rng.uniform(10, 170) for _ in range(3)], rng.choice(["deg", "rad"])],
            "offset": [qs(), qs(), qs(), es()],
            "title": _gstr(rng), "label": [_gstr(rng, 8) for _ in range(4)],
            "u": [[_gfloat(rng) for _ in range(3)], rng.choice(Q_UNITS)],
            "v": [[_gfloat(rng) for _ in range(3)], rng.choice(Q_UNITS)],
            "w": None if rng.random() < 0.5 else [[_gfloat(rng) for _ in range(3)], rng.choice(Q_UNITS)],
            "nonorthogonal": rng.random() < 0.5,
        },
    }


def _gen_call(rng, kind: str, tier: str) -> dict:
    if kind == "pix":
        n_runs = rng.choice([1, 1, 2, 3, 5, 20]) if rng.random() < 0.8 else rng.randrange(1, 21)
        indirect = rng.random() < 0.35
        n_det = rng.choice([1, 2, 3, 7]) if indirect else 1
        n_en = rng.choice([1, 2, 5, 11])
        runs = [_gen_experiment(rng, j, indirect, n_det, n_en) for j in range(n_runs)]
        share = n_runs > 1 and rng.random() < 0.3
        if share:
            for e in runs[1:]:
                for k in ("u", "v", "efix", "en", "emode", "en_dtype"):
                    e[k] = copy.deepcopy(runs[0][k])
        return {"op": "pix", "pix": _gen_pix(rng, tier), "runs": runs, "share_vars": share,
                "n_dims": rng.choice([4, 4, 4, 0, 1, 2, 3]),
                "api": {"n_dims_default": rng.random() < 0.3, "rows_explicit": rng.random() < 0.2}}
    if kind == "instrument":
        return {"op": "instrument", "name": _gstr(rng),
                "source": {"name": _gstr(rng), "target": _gstr(rng),
                           "freq": [abs(_gfloat(rng)), rng.choice(["Hz", "MHz"])]}}
    if kind == "sample":
        return {"op": "sample", "name": _gstr(rng),
                "alatt": [[abs(_gfloat(rng)) + 0.5 for _ in range(3)], rng.choice(LEN_UNITS)],
                "angdeg": [[rng.uniform(10, 170) for _ in range(3)], rng.choice(["deg", "rad"])]}
    if kind == "dnd":
        return {"op": "dnd", "meta": _gen_dnd(rng)}
    return {"op": "detpar"}


def _sub_program(rng, tier: str, prop: str) -> dict:
    """Another, small, fault-free program for a second builder writing its own in-memory file
    in the same process (before the program under test, or interleaved with it)."""
    for _ in range(6):
        sub = generate(rng, tier, -1, prop, nested=True)
        n_pix = max([c["pix"]["n"] for c in sub["calls"] if c["op"] in ("pix", "pix_bad")] or [0])
        big = any(c["op"] == "dnd" and math.prod(c["meta"]["axes"]["n_bins"]) > 20000 for c in sub["calls"])
        if n_pix <= 2000 and not big:
            break
    else:
        sub["calls"] = [c for c in sub["calls"] if c["op"] in ("instrument", "sample", "detpar")]
    sub.update(sink="mem", fname=None, faults={"mode": "none"}, prelude=None, reuse_builder=False,
               recreate=False, permute_seed=None, preexist=None)
    return sub


def _twin_program(scn: dict, rng) -> dict:
    """Another caller doing the same kind of work: same calls, sizes, byte order and chunking,
    other data and other strings (what two workers of one reduction look like)."""
    t = copy.deepcopy({k: v for k, v in scn.items() if k not in ("interleave", "predecessor")})
    for c in t["calls"]:
        if c["op"] in ("pix", "pix_bad"):
            c["pix"]["seed"] = rng.randrange(1 << 32)
            for e in c["runs"]:
                e["psi"][0] = rng.uniform(0, 3)
                e["filename"] = _gstr(rng, 12)
        elif c["op"] in ("instrument", "sample"):
            c["name"] = _gstr(rng, 12)
    t["title"] = _gstr(rng, 30)
    t.update(sink="mem", fname=None, faults={"mode": "none"}, prelude=None, reuse_builder=False,
             recreate=False, permute_seed=None, preexist=None)
    return t


SWEEP_RUNS = 32  # 2 x 12 parts: tiny program, every line boundary; 2 x 4 parts: one big chunk, distinct lines


def _sweep_scenario(i: int, tier: str, prop: str) -> dict:
    """Enumerated interleavings for two canonical programs (all five builder calls; a tiny pixel
    set written in several chunks, and 2048 pixels written as one 72 KiB chunk) x byte order:
    every distinct source line and every write() of create() is a scheduling point once."""
    import random

    if i < 24:
        variant, part, of = i % 2, i // 2, 12
    else:
        variant, part, of = 2 + i % 2, (i - 24) // 2, 4
    rng = random.Random(977 + variant)
    scn = generate(rng, tier, -1, prop, nested=True)
    calls = [_gen_call(rng, k, tier) for k in ("instrument", "detpar", "pix", "sample", "dnd")]
    pix = calls[2]
    pix["runs"] = pix["runs"][:2]
    pix["pix"]["n"] = 20 if variant < 2 else 2048
    pix["n_dims"] = 4
    calls[4]["meta"]["axes"]["n_bins"] = [2, 3, 1, 2]
    scn.update(calls=calls, sink="mem", fname=None, title="sweep", byteorder=["little", "big"][variant % 2],
               chunk=7 if variant < 2 else 2048, default_chunk=False, permute_seed=None, recreate=False,
               reuse_builder=False, prelude=None, preexist=None, faults={"mode": "none"})
    depth = ("early" if tier == "quick" else "all") if variant < 2 else ("sites" if tier == "quick" else "early")
    scn["interleave"] = {"sweep": [part, of], "depth": depth, "other": _twin_program(scn, rng)}
    if variant < 2 and part % 3 == 0:
        # the same canonical program also gets the interruption sweep (first 12 executions of every
        # source line, every write), spread over 4 runs per byte order
        scn["interrupt"] = {"sweep": [part // 3, 4]}
    return scn


SIZE_SWEEP_RUNS = 8
_SIZE_CASES: list = []


def _size_cases() -> list:
    """Pixel counts n for which the number of float32 ELEMENTS of the pixel block (9 rows x n) is
    k*B - 1, k*B or k*B + 1 for a power-of-two block size B = 2**12 .. 2**20 and k = 1..8 (the
    row count 9 is the format's own constant; a writer that stages elements in blocks of B has
    its boundaries exactly there), x byte order x chunk size (n, larger than n)."""
    if _SIZE_CASES:
        return _SIZE_CASES
    ns = set()
    for m in range(12, 21):
        for k in range(1, 9):
            for d in (-1, 0, 1):
                e = k * (1 << m) + d
                if e % 9 == 0 and 0 < e // 9 <= 100000:
                    ns.add(e // 9)
    for n in sorted(ns):
        for bo in ("little", "big"):
            for chunk in (n, 100000):
                _SIZE_CASES.append({"n": n, "byteorder": bo, "chunk": chunk})
    return _SIZE_CASES


def _size_sweep_scenario(j: int, tier: str, prop: str) -> dict:
    import random

    rng = random.Random(4711)
    scn = generate(rng, tier, -1, prop, nested=True)
    pix = _gen_call(rng, "pix", tier)
    pix["runs"] = pix["runs"][:1]
    pix["n_dims"] = 4
    pix["pix"].update(layout="plain", id_edge=False, cdtype=None)
    scn.update(calls=[pix], sink="mem", fname=None, title="sizes", default_chunk=False, permute_seed=None,
               recreate=False, reuse_builder=False, prelude=None, preexist=None, faults={"mode": "none"})
    scn["size_sweep"] = [j, SIZE_SWEEP_RUNS]
    return scn


def generate(rng, tier: str, i: int, prop: str, nested: bool = False) -> dict:
    if not nested and 0 <= i < SWEEP_RUNS:
        return _sweep_scenario(i, tier, prop)
    if not nested and SWEEP_RUNS <= i < SWEEP_RUNS + SIZE_SWEEP_RUNS:
        return _size_sweep_scenario(i - SWEEP_RUNS, tier, prop)
    kinds = ["pix", "instrument", "sample", "dnd", "detpar"]
    r = rng.random()
    if r < 0.25:
        chosen = list(kinds)
    elif r < 0.35:
        chosen = []
    else:
        chosen = [k for k in kinds if rng.random() < 0.6]
    if "pix" not in chosen and rng.random() < 0.5:
        chosen.append("pix")
    rng.shuffle(chosen)
    calls = [_gen_call(rng, k, tier) for k in chosen]
    # repeats: a later call of the same kind overrides the earlier one
    if calls and rng.random() < 0.2:
        k = rng.choice(chosen)
        calls.insert(rng.randrange(len(calls) + 1), _gen_call(rng, k, tier))
    if prop == "C12":
        for c in calls:
            if c["op"] == "pix" and rng.random() < 0.15:
                c["api"]["rows"] = rng.choice(["two", "eight", "ten", "nine_permuted"])
    if rng.random() < 0.12:
        bad = _gen_call(rng, "pix", tier)
        bad["op"] = "pix_bad"
        bad["variant"] = rng.choice(["bin_edges", "missing_coord", "no_variances"])
        bad["pix"]["n"] = min(bad["pix"]["n"], 50)
        calls.insert(rng.randrange(len(calls) + 1), bad)
    n_pix = 0
    for c in calls:
        if c["op"] == "pix":
            n_pix = c["pix"]["n"]
    # chunk size relative to the pixel count and to the row count (9)
    cands = [1, 2, 8, 9, 10, 8192, 100000, max(1, n_pix - 1), max(1, n_pix), n_pix + 1,
             max(1, n_pix // 2), max(1, n_pix // 3), max(1, int(10 ** rng.uniform(0, 5)))]
    chunk = rng.choice(cands)
    if n_pix // chunk > 4000:
        chunk = max(1, n_pix // 4000 + 1)
    sink = "mem" if rng.random() < 0.6 else "path"
    fname = None
    if sink == "path":
        base = rng.choice(["f.sqw", "a", _gstr(rng, 60, False).replace("/", "_").replace("\x00", "_").strip(". ") or "x"])
        sub = rng.choice(["", "", "d", "d/e"])
        fname = os.path.join(sub, base[:200]) if sub else base[:200]
    scn = {
        "sink": sink, "fname": fname,
        "title": _gstr(rng, 60) if rng.random() < 0.97 else "T" * rng.choice([65535, 65536, 70000]),
        "byteorder": rng.choice(["native", "little", "big"]),
        "clock": {
            "start": rng.choice([
                "2024-03-21T21:16:56+00:00", "0001-01-01T00:00:00+00:00",
                "9999-12-31T23:59:58+00:00", "2016-12-31T23:59:59+00:00",
                "1970-01-01T00:00:00+00:00", "2038-01-19T03:14:07+00:00",
            ]),
            "deltas": [rng.choice([0.0, 0.001, 1.0, 3600.0, -86400.0, 1e7]) for _ in range(3)],
        },
        "calls": calls, "chunk": chunk,
        "default_chunk": rng.random() < 0.15,
        "permute_seed": rng.randrange(1 << 30) if len(calls) > 1 and rng.random() < 0.5 else None,
        "recreate": sink == "path" and rng.random() < 0.3,
        "api": {"title_default": rng.random() < 0.5, "byteorder_default": rng.random() < 0.5,
                "byteorder_enum": rng.random() < 0.4},
        # how the file is read back: name style, block order, byte order given or deduced
        "reader": {"style": rng.choice(["tuple", "two"]), "order": rng.choice(["forward", "reverse", "twice"]),
                   "byteorder_arg": rng.random() < 0.3},
        # str or pathlib target; something else already at the path (shorter, longer, empty)
        "path_as": rng.choice(["Path", "str"]),
        "preexist": rng.choice([None, None, 0, 10, 1 << 20]) if sink == "path" else None,
        "reuse_builder": rng.random() < 0.35,
        # another builder in the same process whose create() must fail on invalid CONTENT (checked
        # only when the blocks are serialised), before the program under test runs
        "prelude": rng.choice(["bad_experiment_unit", "bad_sample_unit", "bad_proj_type", "bad_angle_unit"])
        if rng.random() < 0.15 else None,
        "faults": {"mode": "none"},
    }
    # fault family
    f = rng.random()
    big_hist = any(c["op"] == "dnd" and math.prod(c["meta"]["axes"]["n_bins"]) > 60000 for c in calls)
    if big_hist:
        scn["reuse_builder"] = False
        scn["recreate"] = False
        scn["permute_seed"] = None
    small = n_pix <= 3000 and not big_hist
    if prop == "C12" and small:
        if sink == "mem" and f < (0.25 if tier == "quick" else 0.5):
            scn["faults"] = {"mode": "enum_writes", "partial": rng.choice([0.0, 0.0, 0.5]), "err": rng.choice(seams.WRITE_ERRORS),
                             "retry_k": rng.randrange(1000)}
        elif sink == "path" and f < (0.5 if tier == "quick" else 0.8):
            scn["faults"] = {"mode": "fsize", "fracs": [rng.random() for _ in range(6)],
                             "tail": [rng.randrange(1, 4096) for _ in range(3)]}
    elif prop == "C13" and small and f < 0.1:
        # thin fault family for C13: an acknowledged file must have the supplied content
        if sink == "path":
            scn["faults"] = {"mode": "fsize", "fracs": [rng.random() for _ in range(3)],
                             "tail": [rng.randrange(1, 4096)]}
    if not nested:
        if rng.random() < 0.12:
            scn["logging"] = rng.choice(["INFO", "DEBUG"])  # the application has logging switched on
        if rng.random() < 0.15:
            # a different builder writes a different file first, successfully
            scn["predecessor"] = _sub_program(rng, tier, prop)
        if small and rng.random() < 0.12:
            # Ctrl-C / cancellation at one point of building + create(), then continued use
            scn["interrupt"] = {"frac": rng.random(), "where": rng.choice(["line", "line", "write"])}
        if small and rng.random() < 0.12:
            # a second caller's whole create() lands between two lines of this create()
            scn["interleave"] = {"frac": rng.random(), "where": rng.choice(["line", "write", "site"]),
                                 "other": _twin_program(scn, rng) if rng.random() < 0.5
                                 else _sub_program(rng, tier, prop)}
    return scn


# =============================================================================
# materialisation (scenario recipe -> library objects)


def _var(sc, pair, dims=None):
    v, u = pair[0], pair[1]
    if isinstance(v, list):
        return sc.array(dims=dims or ["x"], values=np.asarray(v, dtype=float), unit=u)
    return sc.scalar(float(v), unit=u)


def make_pixels(sc, p: dict):
    n = p["n"]
    g = np.random.default_rng(p["seed"])
    vd, idt = np.dtype(p["vdtype"]), np.dtype(p["idtype"])

    def vals(lo, hi):
        if p["dist"] == "ints":
            a = g.integers(-50, 50, n).astype(float)
        elif p["dist"] == "wide":
            a = g.uniform(lo, hi, n) * 10.0 ** g.integers(-6, 7, n)
        else:
            a = g.uniform(lo, hi, n)
        return a.astype(vd)

    u = p["units"]
    cdt = np.dtype(p.get("cdtype") or p["vdtype"])

    def cvals(lo, hi):
        # coordinates may be integers (bin indices, integer energies) in a unit that needs conversion
        return np.round(vals(lo, hi).astype(float) * (10 if cdt.kind == "i" else 1)).astype(cdt) if cdt.kind == "i" \
            else vals(lo, hi).astype(cdt)

    def ids(hi):
        a = g.integers(0, hi, n)
        if p.get("id_edge") and idt == np.dtype("int64") and n:
            # integers that a detour through float64 rounds differently than a direct cast to
            # float32: 2**k + 2**(k-24) + 1 (and near-midpoint neighbours), both signs
            k = g.integers(53, 62, n)
            edge = (1 << k.astype(object)) + (1 << (k.astype(object) - 24)) + 1
            edge = np.array([int(e) * (1 if s_ else -1) for e, s_ in zip(edge, g.integers(0, 2, n))], dtype=np.int64)
            pick = g.random(n) < 0.5
            a = np.where(pick, edge, a)
        return a.astype(idt)

    coords = {
        "u1": sc.array(dims=["obs"], values=cvals(-5, 5), unit=u["u1"]),
        "u2": sc.array(dims=["obs"], values=cvals(-5, 5), unit=u["u2"]),
        "u3": sc.array(dims=["obs"], values=cvals(-5, 5), unit=u["u3"]),
        "u4": sc.array(dims=["obs"], values=cvals(-100, 100), unit=u["u4"]),
        "irun": sc.array(dims=["obs"], values=ids(20), unit=None),
        "idet": sc.array(dims=["obs"], values=ids(100000), unit=None),
        "ien": sc.array(dims=["obs"], values=ids(500), unit=None),
    }
    if p.get("extra_coord"):
        # coordinates the builder does not use: any name (incl. names of data rows), any unit
        nm = p["extra_coord"] if isinstance(p["extra_coord"], str) else "extra"
        unit = {"signal": "count", "error": "count**2", "npix": None}.get(nm, "s")
        coords[nm] = sc.array(dims=["obs"], values=g.uniform(0, 1, n), unit=unit)
    data = sc.array(dims=["obs"], values=vals(0, 1000), variances=np.abs(vals(0.1, 30)).astype(vd),
                    unit=u["signal"])
    if p.get("coord_order"):
        # the order in which the caller attached the coordinates is not part of the data
        import random as _r

        keys = list(coords)
        _r.Random(p["coord_order"]).shuffle(keys)
        coords = {k: coords[k] for k in keys}
    how = p.get("layout", "plain")
    if how != "plain" and n > 0:
        coords = {k: _embed(sc, v, how) for k, v in coords.items()}
        data = _embed(sc, data, how)
    return sc.DataArray(data, coords=coords)


def _to_row_unit(sc, r, unit):
    """What 'converted to the declared unit' means for the reference: a value in another unit is
    converted in floating point (an integer 15 1/nm is 1.5 1/angstrom, not 1 or 2); a value
    already in the row's unit (or unit-less ids) is taken as it is, so that the single rounding
    to float32 happens from the supplied number itself."""
    if unit is None:
        return r
    if r.dtype in ("int64", "int32") and r.unit != sc.Unit(unit):
        r = r.to(dtype="float64")
    return sc.to_unit(r, unit)


def _embed(sc, var, how):
    from .. import layouts

    return layouts.embed(var, "obs", how)


def _en_supplied(e: dict) -> np.ndarray:
    """The energy-transfer values as the caller holds them (float64, float32 or int64 array),
    expressed in float64 (exact: every float32 / int64 below 2**53 is a float64)."""
    a = np.asarray(e["en"][0], dtype=float)
    dt = e.get("en_dtype", "float64")
    return a if dt == "float64" else a.astype(dt).astype(float)


def make_experiment(sc, sqw, e: dict):
    if e["emode"] == 2:
        efix = sc.array(dims=["detector"], values=np.asarray(e["efix"][0], dtype=float), unit=e["efix"][1])
        arr = _en_supplied(e).astype(e.get("en_dtype", "float64"))  # (det, en)
        if e["en"][2] == "de":
            en = sc.array(dims=["detector", "energy_transfer"], values=arr, unit=e["en"][1])
        else:
            en = sc.array(dims=["energy_transfer", "detector"], values=arr.T.copy(), unit=e["en"][1])
    else:
        efix = sc.scalar(float(e["efix"][0]), unit=e["efix"][1])
        en = sc.array(dims=["energy_transfer"], values=_en_supplied(e).astype(e.get("en_dtype", "float64")),
                      unit=e["en"][1])
    return sqw.SqwIXExperiment(
        run_id=e["run_id"], efix=efix, emode=sqw.EnergyMode(e["emode"]), en=en,
        psi=_var(sc, e["psi"]), u=sc.vector(e["u"]), v=sc.vector(e["v"]),
        omega=_var(sc, e["omega"]), dpsi=_var(sc, e["dpsi"]), gl=_var(sc, e["gl"]),
        gs=_var(sc, e["gs"]), filename=e["filename"], filepath=e["filepath"],
    )


def make_dnd(sc, sqw, m: dict):
    a, p = m["axes"], m["proj"]
    sv = lambda pair: sc.scalar(float(pair[0]), unit=pair[1])  # noqa: E731
    axes = sqw.SqwLineAxes(
        title=a["title"], label=list(a["label"]),
        img_scales=[sv(x) for x in a["img_scales"]],
        img_range=[sc.array(dims=["range"], values=np.asarray(x[0], dtype=float), unit=x[1])
                   for x in a["img_range"]],
        n_bins_all_dims=sc.array(dims=["axis"], values=np.asarray(a["n_bins"], dtype="int64"), unit=None),
        single_bin_defines_iax=sc.array(dims=["axis"], values=np.asarray(a["single_bin"], dtype=bool)),
        dax=sc.array(dims=["axis"], values=np.asarray(a["dax"], dtype="int64"), unit=None),
        offset=[sv(x) for x in a["offset"]],
        changes_aspect_ratio=a["changes_aspect_ratio"],
        filename=a["filename"], filepath=a["filepath"],
    )
    proj = sqw.SqwLineProj(
        lattice_spacing=sc.vector(p["alatt"][0], unit=p["alatt"][1]),
        lattice_angle=sc.vector(p["angdeg"][0], unit=p["angdeg"][1]),
        offset=[sv(x) for x in p["offset"]],
        title=p["title"], label=list(p["label"]),
        u=sc.vector(p["u"][0], unit=p["u"][1]), v=sc.vector(p["v"][0], unit=p["v"][1]),
        w=None if p["w"] is None else sc.vector(p["w"][0], unit=p["w"][1]),
        non_orthogonal=p["nonorthogonal"], type="aaa",
    )
    return sqw.SqwDndMetadata(axes=axes, proj=proj)


def apply_calls(sc, sqw, builder, calls: list[dict], inputs: list | None = None):
    import dataclasses

    keep = inputs if inputs is not None else []
    for c in calls:
        op = c["op"]
        if op == "pix":
            pix = make_pixels(sc, c["pix"])
            exps = [make_experiment(sc, sqw, e) for e in c["runs"]]
            if c.get("share_vars"):
                # runs built from one template: the very same Variable objects in every run
                exps = [exps[0]] + [dataclasses.replace(e, u=exps[0].u, v=exps[0].v, efix=exps[0].efix,
                                                        en=exps[0].en) for e in exps[1:]]
            keep += [pix, *exps]
            kw = {"experiments": exps, "n_dims": c["n_dims"]}
            api = c.get("api") or {}
            if api.get("n_dims_default") and c["n_dims"] == 4:
                del kw["n_dims"]  # 4 is the documented default
            if api.get("rows_explicit"):
                kw.update(rows=PIX_ROWS, row_units=ROW_UNITS)  # the defaults, spelled out
            if api.get("rows"):
                # another selection of pixel rows (a documented keyword pair): fewer or more than nine
                sel = {"two": [7, 8], "eight": [0, 1, 2, 3, 4, 5, 7, 8], "ten": [0, 1, 2, 3, 4, 5, 6, 7, 8, 7],
                       "nine_permuted": [8, 7, 6, 5, 4, 3, 2, 1, 0]}[api["rows"]]
                kw.update(rows=tuple(PIX_ROWS[j] for j in sel), row_units=tuple(ROW_UNITS[j] for j in sel))
            builder = builder.add_pixel_data(pix, **kw)
        elif op == "pix_bad":
            # a call the builder must refuse; afterwards it must behave as if never made
            pix = make_pixels(sc, c["pix"])
            if c["variant"] == "bin_edges":
                n = c["pix"]["n"]
                pix.coords["u1"] = sc.array(dims=["obs"], values=np.arange(n + 1.0), unit=c["pix"]["units"]["u1"])
            elif c["variant"] == "missing_coord":
                del pix.coords["ien"]
            else:
                pix = sc.DataArray(sc.values(pix.data), coords=dict(pix.coords))
            exps = [make_experiment(sc, sqw, e) for e in c["runs"]]
            _, exc = core.capture(builder.add_pixel_data, pix, experiments=exps, n_dims=c["n_dims"])
            if exc is None:
                raise _Unmodelable("add_pixel_data accepted " + c["variant"])
        elif op == "instrument":
            s = c["source"]
            inst = sqw.SqwIXNullInstrument(
                name=c["name"],
                source=sqw.SqwIXSource(name=s["name"], target_name=s["target"],
                                       frequency=sc.scalar(float(s["freq"][0]), unit=s["freq"][1])))
            keep.append(inst)
            builder = builder.add_default_instrument(inst)
        elif op == "sample":
            smp = sqw.SqwIXSample(
                name=c["name"], lattice_spacing=sc.vector(c["alatt"][0], unit=c["alatt"][1]),
                lattice_angle=sc.vector(c["angdeg"][0], unit=c["angdeg"][1]))
            keep.append(smp)
            builder = builder.add_default_sample(smp)
        elif op == "dnd":
            meta = make_dnd(sc, sqw, c["meta"])
            keep.append(meta)
            builder = builder.add_empty_dnd_data(meta)
        elif op == "detpar":
            builder = builder.add_empty_detector_params()
        else:
            raise core.HarnessError(f"unknown call {op}")
    return builder


class _Unmodelable(Exception):
    """The library accepted a call the reference model treats as refused."""


def final_calls(calls: list[dict]) -> dict:
    """Reference model of the builder: the last call of each kind wins; a refused call
    (pix_bad) leaves no trace."""
    out = {}
    for c in calls:
        if c["op"] != "pix_bad":
            out[c["op"]] = c
    return out


def expected_block_names(fin: dict) -> list[tuple[str, str]]:
    present = {("", "main_header")}
    if "detpar" in fin:
        present.add(("", "detpar"))
    if "dnd" in fin:
        present |= {("data", "metadata"), ("data", "nd_data")}
    if "instrument" in fin:
        present.add(("experiment_info", "instruments"))
    if "sample" in fin:
        present.add(("experiment_info", "samples"))
    if "pix" in fin:
        present |= {("experiment_info", "expdata"), ("pix", "metadata"), ("pix", "data_wrap")}
    return [n for n in CANON_ORDER if n in present]


EXPECTED_TYPES = {("pix", "data_wrap"): "pix_data_block", ("data", "nd_data"): "dnd_data_block"}


# =============================================================================
# execution


class SqwEngine(Engine):
    level = "exploration"
    components_real = [
        "scippneutron.io.sqw (builder, low-level I/O, models, reader)", "scipp", "numpy tofile / "
        "fromfile", "the kernel's file system (tmpfs) for path sinks",
    ]
    components_stubbed = [
        "in-memory sink = SimBytesIO (BytesIO subclass recording the write trace, failing at a "
        "scheduled write ordinal)", "clock = SimClock behind the modules' datetime name",
        "disk-full = RLIMIT_FSIZE with SIGXFSZ ignored",
    ]

    def __init__(self, prop: str):
        self.prop = prop
        if prop == "C12":
            self.level = "fault_enumeration"
            self.title = "Every SQW file written is a structurally complete, self-consistent container"
            self.rule = (
                "A case is one seeded builder program: subset/order/repeats of the five builder "
                "calls, byte order, 0..1e5 pixels, chunk size chosen relative to the pixel count and "
                "to the row count 9, sink kind (SimBytesIO / real file), title, scripted clock, plus "
                "a fault plan. Fault plans: none; 'enum_writes' = EVERY write ordinal of the "
                "program's fault-free twin is replayed as the first failing write (complete "
                "enumeration of that program's crash points, the medium stays full afterwards), "
                "with one retry on a fresh sink; 'fsize' = a real file with RLIMIT_FSIZE at every "
                "region boundary +-1, at seeded interior offsets and inside the last stdio buffer, "
                "followed by create() again with the limit lifted. evaluations = programs; the "
                "number of enumerated crash points is in counters. Distinct = distinct scenario "
                "digest; non-trivial = the program writes at least one block besides the main "
                "header AND (has a fault plan whose fault fired at least once OR has pixel data "
                "with more than one chunk OR was checked against a permuted twin)."
            )
        else:
            self.title = "SQW content is what was supplied: pixels, run metadata, histogram metadata"
            self.rule = (
                "Same seeded builder programs as C12 (subset/order of calls, byte order, pixel "
                "count, chunk size, sink kind, clock); the written bytes are decoded by the "
                "independent decoder and compared with the supplied data, then every block is "
                "read with the package's own reader and compared (numbers, strings, shapes, unit "
                "dimensions). Distinct = distinct scenario digest; non-trivial = the program "
                "contains pixel data (n>=1) or histogram metadata, i.e. content beyond the "
                "main header is compared."
            )
        self.assumptions = [
            "reference decoder dsim/ref_sqw.py encodes my reading of the SQW layout (Appendix B of "
            "DESIGN.md); a misreading shared with the writer is invisible offline (no Horace)",
            "expected float32 pixel rows = numpy float32 cast of scipp.to_unit applied to pristine "
            "copies of the supplied rows (scipp is trusted, scippneutron is not)",
            "acknowledgement rule: a create() that returns normally has acknowledged its file, which "
            "must then satisfy the property in full; a create() that raises is not judged",
            "only write-side faults; no read faults / torn inputs (format has no integrity data)",
            "strings (title, labels, names): printable ASCII, plus (15 %) accents, CJK, astral-plane and control characters, NUL, and NUL-/blank-padded fixed-width strings; lengths 0..300, rarely 65535..70000",
            "histograms up to ~50 000 elements with sizes on 2**m boundaries; 3 % of histogram programs have 2**20 or 2**21 elements (those run without fault enumeration)",
            "experiment u/v vectors are supplied dimensionless (the format stores them unit-less)",
            "creation dates are logged, not judged (not in the statement)",
        ]

    def budget(self, tier):
        if self.prop == "C13":
            return 5000 if tier == "quick" else 150000
        return 1600 if tier == "quick" else 50000

    def timeout(self, tier):
        return 900 if tier == "quick" else 1800

    def setup(self):
        import signal

        import scippneutron.io.sqw._build as b
        import scippneutron.io.sqw._models as m

        seams.install_clock(b, m)
        signal.signal(signal.SIGXFSZ, signal.SIG_IGN)

    def generate(self, rng, tier, i):
        return generate(rng, tier, i, self.prop)

    # ---------------------------------------------------------------- helpers
    def _mk_sink(self, scn, ctx, **kw):
        if scn["sink"] == "mem":
            return seams.SimBytesIO(ctx=ctx, **kw)
        from pathlib import Path

        p = Path(scn["fname"])
        if p.parent != Path("."):
            p.parent.mkdir(parents=True, exist_ok=True)
        if scn.get("preexist") is not None and not p.exists():
            p.write_bytes(b"\xa5" * scn["preexist"])
            ctx.probe("target_path_existed_before")
        return str(p) if scn.get("path_as") == "str" else p

    def _create(self, scn, ctx, sink, calls=None, label="create", keep=None):
        """Build + create().  Returns ExcInfo|None.  Fresh inputs every time; with ``keep`` (a dict)
        the builder and the input objects are handed back for re-use."""
        import scipp as sc
        import scippneutron.io.sqw as sqw

        seams.CLOCK.set(scn["clock"])
        seams.CLOCK.ctx = ctx
        inputs: list = []

        def run():
            api = scn.get("api") or {}
            bkw = {"title": scn["title"], "byteorder": scn["byteorder"]}
            if api.get("title_default") and scn["title"] == "":
                del bkw["title"]
            if api.get("byteorder_default") and scn["byteorder"] == "native":
                del bkw["byteorder"]
            elif api.get("byteorder_enum") and scn["byteorder"] != "native":
                bkw["byteorder"] = sqw.Byteorder(scn["byteorder"])
            builder = sqw.Sqw.build(sink, **bkw)
            builder = apply_calls(sc, sqw, builder, scn["calls"] if calls is None else calls, inputs)
            if keep is not None:
                from .. import canon

                keep["builder"] = builder
                keep["inputs"] = inputs
                keep["before"] = [canon.digest(x) for x in inputs]
            if scn.get("default_chunk"):
                builder.create()
            else:
                builder.create(chunk_size=scn["chunk"])

        _, exc = core.capture(run)
        ctx.sim_time_span_s += seams.CLOCK.span_s()
        ctx.log(label, "raised:" + exc.name if exc else "returned")
        return exc

    def _create_again(self, scn, ctx, builder, label):
        def run():
            if scn.get("default_chunk"):
                builder.create()
            else:
                builder.create(chunk_size=scn["chunk"])

        _, exc = core.capture(run)
        ctx.log(label, "raised:" + exc.name if exc else "returned")
        return exc

    def _bytes_of(self, scn, sink) -> bytes:
        if scn["sink"] == "mem":
            return sink.getvalue()
        with open(sink, "rb") as f:
            return f.read()

    # ---------------------------------------------------------------- execute
    def execute(self, scn, ctx, scratch):
        warnings.simplefilter("ignore")
        os.chdir(scratch)
        fin = final_calls(scn["calls"])
        n_pix = fin["pix"]["pix"]["n"] if "pix" in fin else None
        chunk = 8192 if scn.get("default_chunk") else scn["chunk"]
        ctx.step(f"{scn['sink']}:{scn['byteorder']}:" + ",".join(c["op"] for c in scn["calls"]))
        if n_pix is not None:
            ctx.probe("pixels==0" if n_pix == 0 else "pixels>0")
            if n_pix:
                ctx.probe("chunk<pixels" if chunk < n_pix else
                          ("chunk==pixels" if chunk == n_pix else "chunk>pixels"))
                ctx.probe("chunk<rows(9)" if chunk < 9 else ("chunk==rows(9)" if chunk == 9 else "chunk>rows(9)"))
                if n_pix > 9 and chunk < n_pix:
                    ctx.probe("more_chunks_than_rows_bound" if (n_pix + chunk - 1) // chunk > (9 + chunk - 1) // chunk else "chunks_within_rows_bound")
        ctx.probe("byteorder_" + scn["byteorder"])
        ctx.probe("sink_" + scn["sink"])

        if scn.get("size_sweep"):
            part, of = scn["size_sweep"]
            mine = [c for m, c in enumerate(_size_cases()) if m % of == part]
            for c in mine:
                v = copy.deepcopy({k: val for k, val in scn.items() if k != "size_sweep"})
                v["calls"][0]["pix"]["n"] = c["n"]
                v.update(byteorder=c["byteorder"], chunk=c["chunk"])
                if not self._other_file(v, ctx, f"size sweep n={c['n']} {c['byteorder']} chunk={c['chunk']}"):
                    break
                if ctx.violations:
                    for viol in ctx.violations:
                        viol.setdefault("hint", {}).update(size_case=c)
                    break
            ctx.count("size_sweep_cases", len(mine))
            return
        if scn.get("prelude"):
            self._prelude(scn, ctx)
        if scn.get("predecessor"):
            ctx.probe("another_file_written_first")
            if not self._other_file(scn["predecessor"], ctx, "predecessor"):
                return

        # ---- fault-free twin ------------------------------------------------
        sink = self._mk_sink(scn, ctx)
        keep: dict = {}
        exc = self._create(scn, ctx, sink, keep=keep)
        if exc is not None and exc.name == "_Unmodelable":
            ctx.probe("refused_call_was_accepted_program_skipped")
            return
        if exc is not None:
            ctx.violate("create_raised", f"fault-free create() raised {exc}",
                        kind="create_raised", exc=exc.name)
            return
        if any(c["op"] == "pix_bad" for c in scn["calls"]):
            ctx.probe("refused_builder_call_then_continued")
        self._inputs_untouched(ctx, keep, "create()")
        buf = self._bytes_of(scn, sink)
        ctx.log("file", len(buf), core.h64(buf))
        dec = ref_sqw.decode_file(buf)
        trace = sink.sim_trace if scn["sink"] == "mem" else None
        if trace is not None:
            ctx.count("sink_writes", len(trace))
        self._judge_structure(scn, ctx, fin, buf, dec, trace, where="fault-free")
        self._judge_reopen(scn, ctx, sink, dec)
        if self.prop == "C13":
            self._judge_content(scn, ctx, fin, dec)
            if dec["problems"]:
                # the container itself is broken (already reported): feeding it to the package's
                # reader adds nothing and a reader may spin on garbage lengths
                ctx.probe("reader_skipped_on_structurally_broken_file")
            else:
                self._judge_reader(scn, ctx, fin, sink, dec)

        # ---- the same builder (and the same input objects) creates the file again -----------
        if scn.get("reuse_builder") and "builder" in keep:
            if scn["sink"] == "mem":
                sink.seek(0)
                sink.truncate(0)
                sink.sim_trace.clear()
            exc = self._create_again(scn, ctx, keep["builder"], "create_again_same_builder")
            ctx.probe("same_builder_created_twice")
            if exc is not None:
                ctx.violate("create_raised", f"second create() on the same builder raised {exc}",
                            kind="recreate_raised")
            else:
                buf2 = self._bytes_of(scn, sink)
                d2 = ref_sqw.decode_file(buf2)
                self._judge_structure(scn, ctx, fin, buf2, d2, None, where="second create, same builder")
                if self.prop == "C13":
                    self._judge_content(scn, ctx, fin, d2, where="second create, same builder")
                if buf2 != buf and scn["clock"]["deltas"] == [0.0, 0.0, 0.0]:
                    ctx.log("second_file_differs")
                self._inputs_untouched(ctx, keep, "the second create()")

        # ---- differential: permuted builder calls -------------------------------
        if scn.get("permute_seed") is not None and self.prop == "C12" and not any(
                c["op"] == "pix_bad" for c in scn["calls"]):
            self._permuted_twin(scn, ctx, fin, dec)

        # ---- create() again on the same path ------------------------------------
        if scn.get("recreate") and scn["sink"] == "path":
            exc = self._create(scn, ctx, sink, label="recreate")
            if exc is not None:
                ctx.violate("create_raised", f"second create() on the same path raised {exc}", kind="recreate_raised")
            else:
                buf2 = self._bytes_of(scn, sink)
                d2 = ref_sqw.decode_file(buf2)
                self._judge_structure(scn, ctx, fin, buf2, d2, None, where="recreate")
                ctx.probe("recreate_same_path")

        # ---- a second caller's create() interleaved with this one -----------------
        if scn.get("interleave"):
            self._interleaved(scn, ctx, fin)
        # ---- the caller is interrupted in the middle, then carries on --------------
        if scn.get("interrupt"):
            self._interrupted(scn, ctx, fin)

        # ---- fault family ---------------------------------------------------------
        mode = scn["faults"]["mode"]
        if mode == "enum_writes" and scn["sink"] == "mem":
            self._enum_writes(scn, ctx, fin, dec, trace)
        elif mode == "write_k" and scn["sink"] == "mem":
            self._one_write_fault(scn, ctx, fin, dec, trace, scn["faults"]["k"],
                                  scn["faults"].get("partial", 0.0), retry=scn["faults"].get("retry", True))
        elif mode in ("fsize", "fsize_k") and scn["sink"] == "path":
            self._fsize(scn, ctx, fin, dec, buf)

    def _judge_other(self, oscn, ctx, buf, where):
        fin_o = final_calls(oscn["calls"])
        dec = ref_sqw.decode_file(buf)
        self._judge_structure(oscn, ctx, fin_o, buf, dec, None, where=where)
        if self.prop == "C13":
            self._judge_content(oscn, ctx, fin_o, dec, where=where)

    def _other_file(self, oscn, ctx, where) -> bool:
        """Another builder writes another (in-memory) file; judged like any file."""
        sink = seams.SimBytesIO(ctx=ctx)
        exc = self._create(oscn, ctx, sink, label="create_" + where)
        if exc is not None and exc.name == "_Unmodelable":
            return False
        if exc is not None:
            ctx.violate("create_raised", f"[{where}] create() raised {exc}", kind="create_raised", exc=exc.name)
            return False
        self._judge_other(oscn, ctx, sink.getvalue(), where)
        return True

    def _count_points(self, mem, ctx, prefixes):
        """Counting pass: line events, distinct source lines and write() calls of this create()."""
        counter = seams.Preemptor(prefixes, {})
        counter.early_k = 12
        csink = seams.SimBytesIO(ctx=ctx)
        exc = counter.run(lambda: self._create(mem, ctx, csink, label="create_counting_pass"))
        if exc is not None:
            return None
        return {"line": counter.ordinal, "site": len(counter.site_order), "write": csink.sim_writes,
                "sites": counter.site_order, "early": counter.early}

    def _interleave_once(self, mem, ctx, fin, other, where, at, totals, prefixes, tag):
        """Two callers, two builders, two files: the second caller's whole create() runs while the
        first caller is at one scheduling point of its own create(): a line boundary (by event
        ordinal or by first execution of a distinct source line) or inside a write() on the sink
        (I/O is where threads switch).  Both files must be what their own programs supplied."""
        kind = {"line": "preempt_in_create", "site": "preempt_at_source_line", "write": "preempt_in_write"}[where]
        total = totals[where]
        ctx.fault_configured(kind)
        sink_o = seams.SimBytesIO(ctx=ctx)
        state = {}

        def cb(frame):
            if where == "write":
                at_s = "write"
            else:
                at_s = f"{os.path.basename(frame.f_code.co_filename)}:{frame.f_code.co_name}"
                state["line"] = f"{os.path.basename(frame.f_code.co_filename)}:{frame.f_lineno}"
            ctx.log("preempt", at_s, where, at, total)
            ctx.site("preempt@" + at_s)
            state["exc"] = self._create(other, ctx, sink_o, label="create_other_caller")
            state["ran"] = True

        if where == "write":
            sink_m = seams.SimBytesIO(ctx=ctx, yield_at={at: cb})
            exc = self._create(mem, ctx, sink_m, label="create_preempted")
        else:
            sink_m = seams.SimBytesIO(ctx=ctx)
            pre = seams.Preemptor(prefixes, {at: cb} if where == "line" else {},
                                  site_points={at: cb} if where == "site" else None)
            pre.once = True
            exc = pre.run(lambda: self._create(mem, ctx, sink_m, label="create_preempted"))
        if not state.get("ran"):
            ctx.probe("preemption_point_not_reached")
            return
        ctx.fault_fired(kind)
        ctx.probe("two_creates_interleaved")
        desc = f"{where} {at}/{total}" + (f" = {state['line']}" if "line" in state else "")
        hint = {"il_where": where, "il_at": at}
        if exc is not None:
            ctx.violate("create_raised", f"[interleaved{tag}] create() raised {exc} when another caller's create() "
                        f"ran at {desc}", kind="interleaved_create_raised", exc=exc.name, _hint=hint)
            return
        oexc = state.get("exc")
        if oexc is not None and oexc.name != "_Unmodelable":
            ctx.violate("create_raised", f"[interleaved{tag}] the other caller's create() raised {oexc} ({desc})",
                        kind="interleaved_create_raised", exc=oexc.name, _hint=hint)
            return
        n0 = len(ctx.violations)
        buf = sink_m.getvalue()
        dec = ref_sqw.decode_file(buf)
        self._judge_structure(mem, ctx, fin, buf, dec, None, where=f"interleaved{tag} (pre-empted at {desc})")
        if self.prop == "C13":
            self._judge_content(mem, ctx, fin, dec, where=f"interleaved{tag} (pre-empted caller, {desc})")
        if oexc is None:
            self._judge_other(other, ctx, sink_o.getvalue(), f"interleaved{tag} (pre-empting caller, {desc})")
        for v in ctx.violations[n0:]:
            v.setdefault("hint", {}).update(hint)

    def _interrupt_once(self, mem, ctx, fin, where, at, totals, prefixes, tag=""):
        """The caller is interrupted (Ctrl-C, task cancelled) at one scheduling point of building /
        create(); what survives is the process: module state and, if it got that far, the builder.
        Afterwards the same builder (if any) writes again and a fresh builder writes the same
        program: both files must be complete and carry what was supplied."""
        kind = {"line": "interrupt_at_line", "write": "interrupt_in_write"}[where]
        ctx.fault_configured(kind)
        keep: dict = {}
        if where == "write":
            sink = seams.SimBytesIO(ctx=ctx, yield_at={at: seams.interrupt_now})
            run = lambda: self._create(mem, ctx, sink, label="create_interrupted", keep=keep)  # noqa: E731
        else:
            sink = seams.SimBytesIO(ctx=ctx)
            pre = seams.Preemptor(prefixes, {at: seams.interrupt_now})
            run = lambda: pre.run(lambda: self._create(mem, ctx, sink, label="create_interrupted", keep=keep))  # noqa: E731
        try:
            run()
            ctx.probe("interruption_point_not_reached")
            return
        except seams.SimInterrupt:
            pass
        ctx.fault_fired(kind)
        ctx.log("interrupted", where, at, totals[where])
        desc = f"{where} {at}/{totals[where]}"
        hint = {"int_where": where, "int_at": at}
        n0 = len(ctx.violations)
        if "builder" in keep:
            # the builder survived the interruption of its create(): it writes again
            sink.seek(0)
            sink.truncate(0)
            exc = self._create_again(mem, ctx, keep["builder"], "create_again_after_interrupt")
            if exc is not None:
                # a refusal after an abnormal exit produces no file: the statement is about the
                # files that ARE produced -> counted, not an alarm
                ctx.probe("same_builder_refuses_after_interruption")
                ctx.log("refused_after_interrupt", "same_builder", exc.name)
            else:
                buf = sink.getvalue()
                dec = ref_sqw.decode_file(buf)
                self._judge_structure(mem, ctx, fin, buf, dec, None, where=f"same builder after interruption at {desc}{tag}")
                if self.prop == "C13":
                    self._judge_content(mem, ctx, fin, dec, where=f"same builder after interruption at {desc}{tag}")
                ctx.probe("same_builder_after_interruption")
        fresh = seams.SimBytesIO(ctx=ctx)
        exc = self._create(mem, ctx, fresh, label="create_fresh_after_interrupt")
        if exc is not None:
            ctx.probe("fresh_builder_refuses_after_interruption")
            ctx.log("refused_after_interrupt", "fresh_builder", exc.name)
        else:
            buf = fresh.getvalue()
            dec = ref_sqw.decode_file(buf)
            self._judge_structure(mem, ctx, fin, buf, dec, None, where=f"fresh builder after interruption at {desc}{tag}")
            if self.prop == "C13":
                self._judge_content(mem, ctx, fin, dec, where=f"fresh builder after interruption at {desc}{tag}")
        for v in ctx.violations[n0:]:
            v.setdefault("hint", {}).update(hint)

    def _interrupted(self, scn, ctx, fin):
        import scippneutron.io.sqw as sqw

        it = scn["interrupt"]
        prefixes = (os.path.dirname(sqw.__file__) + os.sep,)
        mem = dict(scn, sink="mem")
        totals = self._count_points(mem, ctx, prefixes)
        if totals is None:
            return
        if it.get("sweep"):
            part, of = it["sweep"]
            pts = [("line", k) for k in totals["early"]] + [("write", k) for k in range(totals["write"])]
            mine = [pt for n, pt in enumerate(pts) if n % of == part]
            for where, at in mine:
                self._interrupt_once(mem, ctx, fin, where, at, totals, prefixes, " sweep")
            ctx.count("interruption_points_enumerated", len(mine))
            return
        where = it.get("where", "line")
        total = totals[where]
        at = it["at"] if "at" in it else (min(total - 1, int(it["frac"] * total)) if total else 0)
        self._interrupt_once(mem, ctx, fin, where, at, totals, prefixes)

    def _interleaved(self, scn, ctx, fin):
        import scippneutron.io.sqw as sqw

        il = scn["interleave"]
        prefixes = (os.path.dirname(sqw.__file__) + os.sep,)
        mem = dict(scn, sink="mem")
        totals = self._count_points(mem, ctx, prefixes)
        if totals is None:
            return
        if il.get("sweep"):
            # enumeration: every distinct source line and every write() of this create() is used
            # once as the scheduling point (this run covers the points k with k % of == part)
            part, of = il["sweep"]
            # small create(): EVERY line boundary (a loop body is a different state each time
            # round); long create(): the first execution of every distinct source line
            mode = il.get("depth", "sites")
            if mode == "all":
                lines = [("line", k) for k in range(totals["line"])]
            elif mode == "early":
                # the first 12 executions of every distinct source line (covers every round of the
                # loops over blocks, rows and runs of a small program)
                lines = [("line", k) for k in totals["early"]]
            else:
                lines = [("site", k) for k in range(totals["site"])]
            ctx.probe("sweep_depth_" + mode)
            pts = lines + [("write", k) for k in range(totals["write"])]
            mine = [pt for n, pt in enumerate(pts) if n % of == part]
            for where, at in mine:
                self._interleave_once(mem, ctx, fin, il["other"], where, at, totals, prefixes, " sweep")
            ctx.count("interleaving_points_enumerated", len(mine))
            ctx.count("interleaving_points_total", len(pts) if part == 0 else 0)
            return
        where = il.get("where", "line")
        total = totals[where]
        at = il["at"] if "at" in il else (min(total - 1, int(il["frac"] * total)) if total else 0)
        self._interleave_once(mem, ctx, fin, il["other"], where, at, totals, prefixes, "")

    def _prelude(self, scn, ctx):
        """A different builder whose create() is expected to be refused because of its content."""
        import scipp as sc
        import scippneutron.io.sqw as sqw

        kind = scn["prelude"]
        calls = [{"op": "detpar"},
                 {"op": "instrument", "name": "i", "source": {"name": "s", "target": "t", "freq": [1.0, "Hz"]}},
                 {"op": "sample", "name": "smp", "alatt": [[2.0, 2.0, 2.0], "angstrom"], "angdeg": [[90.0, 90.0, 90.0], "deg"]},
                 {"op": "pix", "n_dims": 4, "share_vars": False,
                  "pix": {"n": 12, "seed": 5, "vdtype": "float64", "idtype": "int64", "dist": "ints", "extra_coord": False,
                          "units": {"u1": "1/angstrom", "u2": "1/angstrom", "u3": "1/angstrom", "u4": "meV", "signal": "count"}},
                  "runs": [{"run_id": 0, "emode": 1, "psi": [0.1, "rad"], "omega": [0.0, "rad"], "dpsi": [0.0, "rad"],
                            "gl": [0.0, "rad"], "gs": [0.0, "rad"], "u": [1.0, 0.0, 0.0], "v": [0.0, 1.0, 0.0],
                            "filename": "f", "filepath": "p", "efix": [5.0, "meV"], "en": [[1.0, 2.0], "meV", "e"]}]},
                 {"op": "dnd", "meta": _gen_dnd(__import__("random").Random(7))}]
        if kind == "bad_experiment_unit":
            calls[3]["runs"][0]["efix"] = [5.0, "m"]
        elif kind == "bad_angle_unit":
            calls[3]["runs"][0]["psi"] = [0.1, "s"]
        elif kind == "bad_sample_unit":
            calls[2]["alatt"] = [[2.0, 2.0, 2.0], "kg"]

        def run():
            b = sqw.Sqw.build(seams.SimBytesIO(), title="prelude", byteorder=scn["byteorder"])
            b = apply_calls(sc, sqw, b, calls)
            if kind == "bad_proj_type":
                meta = make_dnd(sc, sqw, calls[4]["meta"])
                meta.proj.type = "ppp"
                b = b.add_empty_dnd_data(meta)
            b.create()

        seams.CLOCK.set(scn["clock"])
        _, exc = core.capture(run)
        ctx.log("prelude", kind, "refused:" + exc.name if exc else "ACCEPTED")
        ctx.probe("create_refused_for_invalid_content_before_program" if exc else
                  "invalid_content_accepted_by_create")

    def _inputs_untouched(self, ctx, keep, what):
        from .. import canon

        if "inputs" not in keep:
            return
        now = [canon.digest(x) for x in keep["inputs"]]
        for j, (a, b) in enumerate(zip(keep["before"], now, strict=True)):
            if a != b:
                ctx.violate("input_modified", f"{what} modified the supplied "
                            f"{type(keep['inputs'][j]).__name__} (input #{j})", kind="input_modified",
                            what=type(keep["inputs"][j]).__name__)
        keep["before"] = now
        ctx.count("input_snapshots_compared", len(now))

    # -------------------------------------------------------------- C12 oracle
    def _judge_structure(self, scn, ctx, fin, buf, dec, trace, where):
        v = lambda clause, msg, **sig: ctx.violate(  # noqa: E731
            clause, f"[{where}] {msg}", kind=clause, **sig)
        want_bo = {"native": NATIVE, "little": "<", "big": ">"}[scn["byteorder"]]
        hdr_fmt = want_bo + "I6sdII"
        import struct

        n_dims = fin["pix"]["n_dims"] if "pix" in fin else 0
        want_hdr = struct.pack(hdr_fmt, 6, b"horace", 4.0, 1, n_dims)
        if buf[: len(want_hdr)] != want_hdr:
            v("header", f"file does not begin with the 'horace' 4.0 header in {scn['byteorder']} "
              f"byte order: {buf[:26].hex()} != {want_hdr.hex()}")
        for clause, msg in dec["problems"]:
            v(clause, msg, where=where if where != "fault-free" else None)
        if "bat" not in dec:
            return
        names = [d["name"] for d in dec["bat"]["descriptors"]]
        want = expected_block_names(fin)
        if sorted(names) != sorted(want):
            v("bat_names", f"BAT lists {names}, reference model of the builder calls expects the "
              f"set {want}")
        for d in dec["bat"]["descriptors"]:
            wt = EXPECTED_TYPES.get(d["name"], "data_block")
            if d["type"] != wt:
                v("block_type", f"block {d['name']} declared as {d['type']}, expected {wt}")
            if d["locked"] != 0:
                v("block_locked", f"block {d['name']} written as locked")
        # in-flight invariants from the write trace (diagnosis attached to the log)
        if trace is not None:
            end = 0
            append_only = True
            for pos, n in trace:
                if pos != end:
                    append_only = False
                end = pos + n
            ctx.log("trace", len(trace), "append_only" if append_only else "NOT_append_only")
            starts = {pos for pos, _ in trace}
            for d in dec["bat"]["descriptors"]:
                if d["position"] not in starts and d["size"] > 0:
                    ctx.log("trace_diag", f"no write starts at declared position of {d['name']}")

    def _judge_reopen(self, scn, ctx, sink, dec):
        import scippneutron.io.sqw as sqw

        want = {"native": sys.byteorder, "little": "little", "big": "big"}[scn["byteorder"]]
        try:
            if scn["sink"] == "mem":
                sink.seek(0)
            with sqw.Sqw.open(sink) as f:
                got = f.byteorder.value
                hdr = f.file_header
                names = list(f.data_block_names())
        except Exception as e:  # noqa: BLE001
            ctx.violate("reopen", f"Sqw.open of the written file raised {type(e).__name__}: {e}",
                        kind="reopen_raised")
            return
        ctx.log("reopen", got, names)
        if got != want:
            ctx.violate("reopen", f"written with byte order {want}, re-opened as {got}",
                        kind="reopen_byteorder")
        if hdr.prog_name != "horace" or hdr.prog_version != 4.0:
            ctx.violate("reopen", f"re-opened header is {hdr}", kind="reopen_header")
        if "bat" in dec and names != [d["name"] for d in dec["bat"]["descriptors"]]:
            ctx.violate("reopen", f"reader lists blocks {names}, decoder "
                        f"{[d['name'] for d in dec['bat']['descriptors']]}", kind="reopen_names")

    def _permuted_twin(self, scn, ctx, fin, dec):
        import random

        calls = list(scn["calls"])
        # permute only the *final* call of each kind relative to each other (an overridden
        # earlier call must stay before its overrider for the program to mean the same)
        last_idx = {}
        for i, c in enumerate(calls):
            last_idx[c["op"]] = i
        finals = [calls[i] for i in sorted(last_idx.values())]
        others = [c for i, c in enumerate(calls) if i not in last_idx.values()]
        random.Random(scn["permute_seed"]).shuffle(finals)
        perm = others + finals
        s2 = dict(scn)
        s2["sink"] = "mem"
        sink2 = seams.SimBytesIO()
        exc = self._create(s2, ctx, sink2, calls=perm, label="create_permuted")
        ctx.probe("permuted_twin")
        if exc is not None:
            ctx.violate("create_raised", f"create() of permuted program raised {exc}", kind="create_raised_permuted")
            return
        d2 = ref_sqw.decode_file(sink2.getvalue())
        if "bat" not in dec or "bat" not in d2:
            return
        n1 = [(d["name"], d["type"], d["size"]) for d in dec["bat"]["descriptors"]]
        n2 = [(d["name"], d["type"], d["size"]) for d in d2["bat"]["descriptors"]]
        if scn["sink"] == "path":
            # sizes differ legitimately (file name / path strings are embedded)
            n1 = [x[:2] for x in n1]
            n2 = [x[:2] for x in n2]
        ctx.log("permuted", [c["op"] for c in perm], [x[0] for x in n2])
        if n1 != n2:
            ctx.violate("bat_order", f"BAT of program {[c['op'] for c in calls]} is {n1} but the "
                        f"same calls in order {[c['op'] for c in perm]} give {n2}", kind="bat_order")

    # ------------------------------------------------------------ fault family
    def _region_of(self, dec, offset: int) -> str:
        if "bat" not in dec:
            return "?"
        if offset < dec["header_end"]:
            return "header"
        if offset < dec["bat"]["end"]:
            return "bat"
        for d in dec["bat"]["descriptors"]:
            if d["position"] <= offset < d["position"] + d["size"]:
                nm = "/".join(d["name"])
                if d["type"] == "pix_data_block":
                    rel = offset - d["position"]
                    if rel < 12:
                        return "pix:header"
                    third = max(1, (d["size"] - 12) // 3)
                    return "pix:" + ("first", "middle", "last")[min(2, (rel - 12) // third)]
                if d["type"] == "dnd_data_block":
                    return "dnd"
                return "block:" + nm
        return "eof"

    def _one_write_fault(self, scn, ctx, fin, dec, trace, k, partial, retry):
        sink = seams.SimBytesIO(ctx=ctx, fail_at=k, partial=partial, err=scn["faults"].get("err", "ENOSPC"))
        ctx.fault_configured("enospc_at_write_ordinal")
        keep: dict = {}
        exc = self._create(scn, ctx, sink, label=f"create_fault_k{k}", keep=keep if retry else None)
        if not sink.sim_fired:
            # fewer writes than k: nothing injected, must behave as fault-free
            if exc is not None:
                ctx.violate("create_raised", f"create() raised {exc} without fault",
                            kind="create_raised")
            return False
        ctx.fault_fired("enospc_at_write_ordinal")
        off = trace[k][0] if trace and k < len(trace) else -1
        region = self._region_of(dec, off)
        ctx.site("wfault@" + region)
        if exc is None:
            ctx.violate(
                "ack_after_failed_write",
                f"create() returned normally although write #{k} (offset {off}, region {region}) "
                f"and all later writes failed with ENOSPC; sink holds {len(sink.getvalue())} of "
                f"{dec['len']} bytes",
                kind="ack_after_failed_write", sink="mem", _hint={"write_k": k},
            )
        if retry:
            # the fault clears; the SAME builder (same inputs) creates the file again
            ctx.count("retries_after_fault")
            if "builder" in keep:
                sink.sim_fail_at = None
                sink.seek(0)
                sink.truncate(0)
                exc2 = self._create_again(scn, ctx, keep["builder"], "retry_same_builder_after_fault")
                s2 = sink
                ctx.probe("retry_on_the_builder_that_failed")
            else:
                s2 = seams.SimBytesIO(ctx=ctx)
                exc2 = self._create(scn, ctx, s2, label="retry_after_fault")
            if exc2 is not None:
                ctx.violate("retry_failed", f"after the fault cleared, create() raised {exc2}",
                            kind="retry_failed")
            else:
                d2 = ref_sqw.decode_file(s2.getvalue())
                self._judge_structure(scn, ctx, fin, s2.getvalue(), d2, None, where="retry")
                if s2.getvalue() != dec.get("_bytes", s2.getvalue()) and False:
                    pass
                if self.prop == "C13":
                    self._judge_content(scn, ctx, fin, d2, where="retry")
        return True

    def _enum_writes(self, scn, ctx, fin, dec, trace):
        W = len(trace)
        ks = list(range(W))
        complete = True
        if W > 300:
            # keep every boundary write (first 40, last 40, first write of each block) + stride
            keep = set(range(40)) | set(range(W - 40, W))
            if "bat" in dec:
                starts = {d["position"] for d in dec["bat"]["descriptors"]}
                keep |= {i for i, (pos, _) in enumerate(trace) if pos in starts}
            keep |= set(range(0, W, max(1, W // 150)))
            ks = sorted(keep)
            complete = False
        ctx.probe("crash_points_enumerated_completely" if complete else "crash_points_subsampled")
        partial = scn["faults"].get("partial", 0.0)
        rk = scn["faults"].get("retry_k", 0) % max(1, len(ks))
        for j, k in enumerate(ks):
            self._one_write_fault(scn, ctx, fin, dec, trace, k, partial, retry=(j == rk))
        ctx.count("crash_points_tried", len(ks))
        # one past the end: the fault never fires, behaves as fault-free
        self._one_write_fault(scn, ctx, fin, dec, trace, W, 0.0, retry=False)

    def _fsize_limits(self, scn, dec, size: int) -> list[int]:
        if scn["faults"]["mode"] == "fsize_k":
            return [scn["faults"]["k"]]
        lim = {0, 1, size - 1}
        if "bat" in dec:
            for b in [dec["header_end"], dec["bat"]["end"]] + [d["position"] for d in dec["bat"]["descriptors"]]:
                lim |= {b - 1, b, b + 1}
            for d in dec["bat"]["descriptors"]:
                if d["type"] == "pix_data_block":
                    lim |= {d["position"] + 12, d["position"] + 12 + 36, d["position"] + 11}
        for fr in scn["faults"].get("fracs", []):
            lim.add(int(fr * size))
        for t in scn["faults"].get("tail", []):
            lim.add(size - t)
        return sorted(x for x in lim if 0 <= x < size)

    def _fsize(self, scn, ctx, fin, dec, full):
        path = scn["fname"]
        size = len(full)
        limits = self._fsize_limits(scn, dec, size)
        for k in limits:
            try:
                os.remove(path)
            except OSError:
                pass
            ctx.fault_configured("disk_full_at_byte(RLIMIT_FSIZE)")
            last_keep: dict = {}
            with seams.FsizeLimit(k):
                from pathlib import Path

                exc = self._create(scn, ctx, Path(path), label=f"create_fsize_{k}", keep=last_keep)
            if exc is not None and "builder" in last_keep:
                failed_builder = last_keep["builder"]
            region = self._region_of(dec, k)
            ctx.site("dfull@" + region)
            ctx.fault_fired("disk_full_at_byte(RLIMIT_FSIZE)")
            try:
                on_disk = os.path.getsize(path)
            except OSError:
                on_disk = None
            ctx.log("fsize", k, region, "raised" if exc else "returned", on_disk)
            if exc is None:
                # acknowledged: the file on disk must be complete
                try:
                    with open(path, "rb") as f:
                        got = f.read()
                except OSError:
                    got = b""
                if got != full:
                    d2 = ref_sqw.decode_file(got)
                    probs = "; ".join(m for _, m in d2["problems"][:2])
                    ctx.violate(
                        "ack_truncated_file",
                        f"create() returned normally with the disk full at byte {k} (region "
                        f"{region}); file on disk has {len(got)} of {size} bytes: {probs}",
                        kind="ack_truncated_file", sink="path", _hint={"fsize_k": k},
                        via="tofile" if region.startswith(("pix", "dnd")) else "python-writer",
                    )
        # fault cleared: create() again on the same path must give the complete file -- with the
        # very builder whose create() failed last, if there is one
        from pathlib import Path

        fb = locals().get("failed_builder")
        if fb is not None:
            exc = self._create_again(scn, ctx, fb, "create_after_disk_full_same_builder")
            ctx.probe("retry_on_the_builder_that_failed")
        else:
            exc = self._create(scn, ctx, Path(path), label="create_after_disk_full")
        ctx.count("retries_after_fault")
        if exc is not None:
            ctx.violate("retry_failed", f"after the disk-full condition cleared, create() raised {exc}", kind="retry_failed")
        else:
            with open(path, "rb") as f:
                got = f.read()
            d2 = ref_sqw.decode_file(got)
            self._judge_structure(scn, ctx, fin, got, d2, None, where="retry")

    # -------------------------------------------------------------- C13 oracles
    def _expected_paths(self, scn):
        if scn["sink"] == "mem":
            return "in_memory", "", ""
        from pathlib import Path

        p = Path(scn["fname"])
        return os.fspath(p), os.fspath(p.parent), p.name

    def _judge_content(self, scn, ctx, fin, dec, where="fault-free"):
        import scipp as sc
        import scippneutron.io.sqw as sqw

        R = ref_sqw
        full_filename, filepath, filename = self._expected_paths(scn)

        def bad(what, msg, **sig):
            ctx.violate("content", f"[{where}] {what}: {msg}", kind="content:" + what, **sig)

        def get(name):
            b = dec["blocks"].get(name)
            if b is None:
                bad("/".join(name), "block missing or undecodable")
                return None
            return b["value"]

        def struct_of(obj, what, serial, version, selfser):
            try:
                s = R.one_struct(obj)
                if R.sval(s["serial_name"]) != serial or R.sval(s["version"]) != version:
                    bad(what, f"serial_name/version = {R.sval(s['serial_name'])!r}/"
                        f"{R.sval(s['version'])!r}, expected {serial!r}/{version}")
                if bool(obj["self"]) != selfser:
                    bad(what, f"self-serialising marker (32) present={obj['self']}, expected {selfser}")
                return s
            except (R.DecodeError, KeyError) as e:
                bad(what, f"not the documented struct: {e!r}")
                return None

        def expect(what, got_fn, want):
            try:
                got = got_fn()
            except (R.DecodeError, KeyError, ValueError) as e:
                bad(what, f"field missing or malformed: {e!r}")
                return
            if isinstance(want, np.ndarray):
                g = np.asarray(got, dtype=float)
                ok = g.shape == want.shape and np.array_equal(g, want, equal_nan=True)
            elif isinstance(want, float):
                ok = isinstance(got, float) and (got == want or (math.isnan(got) and math.isnan(want)))
            else:
                ok = got == want
            if not ok:
                bad(what, f"decoded {_short(got)} but supplied/expected {_short(want)}")

        n_runs = len(fin["pix"]["runs"]) if "pix" in fin else 0

        # --- main header
        mh = get(("", "main_header"))
        if mh is not None:
            s = struct_of(mh, "main_header", "main_header_cl", 2.0, False)
            if s:
                expect("main_header.full_filename", lambda: R.sval(s["full_filename"]), full_filename)
                expect("main_header.title", lambda: R.sval(s["title"]), scn["title"])
                expect("main_header.nfiles", lambda: R.sval(s["nfiles"]), float(n_runs))
                ctx.log("creation_date", R.sval(s["creation_date"]) if "creation_date" in s else None)

        # --- pixels
        if "pix" in fin:
            p = fin["pix"]["pix"]
            da = make_pixels(sc, p)
            rows = []
            for name, unit in zip(PIX_ROWS, ROW_UNITS, strict=True):
                if name == "signal":
                    r = sc.values(da.data)
                elif name == "error":
                    r = sc.variances(da.data)
                else:
                    r = da.coords[name]
                rows.append(_to_row_unit(sc, r, unit))
            with np.errstate(all="ignore"):
                want = np.stack([r.values.astype(np.float32) for r in rows], axis=1) if p["n"] else \
                    np.zeros((0, 9), np.float32)
            pd = get(("pix", "data_wrap"))
            if pd is not None:
                if pd["n_rows"] != 9 or pd["n_pix"] != p["n"]:
                    bad("pix.shape", f"pixel block says {pd['n_rows']} rows x {pd['n_pix']} pixels, "
                        f"supplied 9 x {p['n']}")
                elif not np.array_equal(pd["data"].view(np.uint32), want.view(np.uint32)):
                    neq = np.argwhere(pd["data"].view(np.uint32) != want.view(np.uint32))
                    i, r = (int(x) for x in neq[0])
                    bad("pix.values", f"{len(neq)} of {want.size} pixel values differ; first: pixel {i} "
                        f"row {PIX_ROWS[r]} file={pd['data'][i, r]!r} expected={want[i, r]!r}",
                        row=PIX_ROWS[r] if len(set(neq[:, 1].tolist())) == 1 else "several")
                ctx.count("pixels_compared", int(want.shape[0]))
            pm = get(("pix", "metadata"))
            if pm is not None:
                s = struct_of(pm, "pix_metadata", "pix_metadata", 1.0, False)
                if s:
                    expect("pix_metadata.full_filename", lambda: R.sval(s["full_filename"]), full_filename)
                    expect("pix_metadata.npix", lambda: R.sval(s["npix"]), float(p["n"]))
                    if p["n"] > 0:
                        rng_want = np.array(
                            [[float(_to_row_unit(sc, r0.min(), u).value),
                              float(_to_row_unit(sc, r0.max(), u).value)]
                             for r0, u in zip(
                                 [sc.values(da.data) if nm == "signal" else sc.variances(da.data)
                                  if nm == "error" else da.coords[nm] for nm in PIX_ROWS],
                                 ROW_UNITS, strict=True)]).T  # (2, 9)
                        expect("pix_metadata.data_range", lambda: R.farr(s["data_range"]), rng_want)

            # --- experiments
            ed = get(("experiment_info", "expdata"))
            if ed is not None:
                s = struct_of(ed, "expdata", "IX_experiment", 3.0, True)
                if s:
                    try:
                        arr = s["array_dat"]
                        runs = arr["data"] if arr["tag"] == R.T_STRUCT else None
                    except KeyError:
                        runs = None
                    if runs is None or len(runs) != n_runs:
                        bad("expdata.count", f"{None if runs is None else len(runs)} experiment "
                            f"records, supplied {n_runs} runs")
                    else:
                        for j, (rs, e) in enumerate(zip(runs, fin["pix"]["runs"], strict=True)):
                            self._judge_run(ctx, expect, rs, e, j, sc)

        def container(block, what, baseclass, gname, n):
            c = get(block)
            if c is None:
                return None
            s = struct_of(c, what, "unique_references_container", 1.0, False)
            if not s:
                return None
            expect(what + ".stored_baseclass", lambda: R.sval(s["stored_baseclass"]), baseclass)
            expect(what + ".global_name", lambda: R.sval(s["global_name"]), gname)
            try:
                inner = R.one_struct(s["unique_objects"])
                expect(what + ".inner", lambda: (R.sval(inner["serial_name"]), R.sval(inner["version"]),
                                                  R.sval(inner["baseclass"])),
                       ("unique_objects_container", 1.0, baseclass))
                objs = inner["unique_objects"]["data"]
                idx = np.asarray(inner["idx"]["data"], dtype=float).ravel()
            except (R.DecodeError, KeyError) as e:
                bad(what, f"malformed container: {e!r}")
                return None
            if n is not None:
                if len(objs) != 1:
                    bad(what + ".unique", f"{len(objs)} unique objects, expected exactly one shared object")
                    return None
                if idx.shape != (n,) or not np.all(idx == 1.0):
                    bad(what + ".idx", f"idx = {idx.tolist()[:8]}..., expected {n} ones "
                        "(every run references the one shared object)")
                return objs[0]
            if len(objs) != 0 or idx.size != 0:
                bad(what, "detector container not empty")
            return None

        if "instrument" in fin:
            c = fin["instrument"]
            o = container(("experiment_info", "instruments"), "instruments", "IX_inst",
                          "GLOBAL_NAME_INSTRUMENTS_CONTAINER", n_runs)
            if o is not None:
                s = struct_of(o, "instrument", "IX_null_inst", 2.0, True)
                if s:
                    expect("instrument.name", lambda: R.sval(s["name"]), c["name"])
                    try:
                        src = struct_of(s["source"], "instrument.source", "IX_source", 2.0, True)
                    except KeyError:
                        src = None
                        bad("instrument.source", "missing")
                    if src:
                        expect("source.name", lambda: R.sval(src["name"]), c["source"]["name"])
                        expect("source.target_name", lambda: R.sval(src["target_name"]), c["source"]["target"])
                        expect("source.frequency", lambda: R.sval(src["frequency"]), float(c["source"]["freq"][0]))
        if "sample" in fin:
            c = fin["sample"]
            o = container(("experiment_info", "samples"), "samples", "IX_samp",
                          "GLOBAL_NAME_SAMPLES_CONTAINER", n_runs)
            if o is not None:
                s = struct_of(o, "sample", "IX_sample", 3.0, True)
                if s:
                    expect("sample.name", lambda: R.sval(s["name"]), c["name"])
                    expect("sample.alatt", lambda: R.farr(s["alatt"]),
                           sc.vector(c["alatt"][0], unit=c["alatt"][1]).to(unit="angstrom").values)
                    expect("sample.angdeg", lambda: R.farr(s["angdeg"]),
                           sc.vector(c["angdeg"][0], unit=c["angdeg"][1]).to(unit="deg").values)
        if "detpar" in fin:
            container(("", "detpar"), "detpar", "IX_detector_array", "GLOBAL_NAME_DETECTORS_CONTAINER", None)

        # --- histogram
        if "dnd" in fin:
            m = fin["dnd"]["meta"]
            a, p = m["axes"], m["proj"]
            units4 = ["1/angstrom"] * 3 + ["meV"]
            conv = lambda pairs: np.array(  # noqa: E731
                [sc.scalar(float(x[0]), unit=x[1]).to(unit=u, dtype="float64").value
                 for x, u in zip(pairs, units4, strict=True)])
            md = get(("data", "metadata"))
            if md is not None:
                s = struct_of(md, "dnd_metadata", "dnd_metadata", 1.0, False)
                ax = pr = None
                if s:
                    try:
                        ax = struct_of(s["axes"], "axes", "line_axes", 7.0, False)
                        pr = struct_of(s["proj"], "proj", "line_proj", 7.0, False)
                    except KeyError as e:
                        bad("dnd_metadata", f"missing {e}")
                if ax:
                    expect("axes.filename", lambda: R.sval(ax["filename"]), filename)
                    expect("axes.filepath", lambda: R.sval(ax["filepath"]), filepath)
                    expect("axes.title", lambda: R.sval(ax["title"]), a["title"])
                    expect("axes.label", lambda: [R.sval(x) for x in ax["label"]["data"]], list(a["label"]))
                    expect("axes.img_scales", lambda: R.farr(ax["img_scales"]), conv(a["img_scales"]))
                    want_rng = np.array(
                        [sc.array(dims=["r"], values=np.asarray(x[0], dtype=float), unit=x[1])
                         .to(unit=u, dtype="float64").values for x, u in zip(a["img_range"], units4, strict=True)]).T
                    expect("axes.img_range", lambda: R.farr(ax["img_range"]), want_rng)
                    expect("axes.nbins_all_dims", lambda: R.farr(ax["nbins_all_dims"]),
                           np.asarray(a["n_bins"], dtype=float))
                    expect("axes.single_bin_defines_iax", lambda: list(ax["single_bin_defines_iax"]["data"]),
                           list(a["single_bin"]))
                    expect("axes.dax", lambda: R.farr(ax["dax"]), np.asarray(a["dax"], dtype=float) + 1.0)
                    expect("axes.offset", lambda: R.farr(ax["offset"]), conv(a["offset"]))
                    expect("axes.changes_aspect_ratio", lambda: R.sval(ax["changes_aspect_ratio"]),
                           a["changes_aspect_ratio"])
                if pr:
                    vec = lambda x, u: sc.vector(x[0], unit=x[1]).to(unit=u).values  # noqa: E731
                    expect("proj.alatt", lambda: R.farr(pr["alatt"]), vec(p["alatt"], "angstrom"))
                    expect("proj.angdeg", lambda: R.farr(pr["angdeg"]), vec(p["angdeg"], "deg"))
                    expect("proj.offset", lambda: R.farr(pr["offset"]), conv(p["offset"]))
                    expect("proj.title", lambda: R.sval(pr["title"]), p["title"])
                    expect("proj.label", lambda: [R.sval(x) for x in pr["label"]["data"]], list(p["label"]))
                    expect("proj.u", lambda: R.farr(pr["u"]), vec(p["u"], "1/angstrom"))
                    expect("proj.v", lambda: R.farr(pr["v"]), vec(p["v"], "1/angstrom"))
                    expect("proj.w", lambda: R.farr(pr["w"]),
                           np.zeros((0,)) if p["w"] is None else vec(p["w"], "1/angstrom"))
                    expect("proj.nonorthogonal", lambda: R.sval(pr["nonorthogonal"]), p["nonorthogonal"])
                    expect("proj.type", lambda: R.sval(pr["type"]), "aaa")
            nd = get(("data", "nd_data"))
            if nd is not None:
                if tuple(nd["dims"]) != tuple(a["n_bins"]):
                    bad("nd_data.shape", f"histogram dims {nd['dims']}, declared {a['n_bins']}")
                if np.any(nd["s"] != 0) or np.any(nd["e"] != 0) or np.any(nd["npix"] != 0):
                    bad("nd_data.zero", "histogram arrays are not all zero")

    def _judge_run(self, ctx, expect, rs, e, j, sc):
        R = ref_sqw
        w = f"expdata[{j}]."
        expect(w + "filename", lambda: R.sval(rs["filename"]), e["filename"])
        expect(w + "filepath", lambda: R.sval(rs["filepath"]), e["filepath"])
        expect(w + "run_id", lambda: R.sval(rs["run_id"]), float(e["run_id"] + 1))
        expect(w + "emode", lambda: R.sval(rs["emode"]), float(e["emode"]))
        ang = lambda k: float(sc.scalar(float(e[k][0]), unit=e[k][1])  # noqa: E731
                              .to(unit="rad", dtype="float64").value)
        for k in ("psi", "omega", "dpsi", "gl", "gs"):
            expect(w + k, lambda k=k: R.sval(rs[k]), ang(k))
        expect(w + "u", lambda: R.farr(rs["u"]), np.asarray(e["u"], dtype=float))
        expect(w + "v", lambda: R.farr(rs["v"]), np.asarray(e["v"], dtype=float))
        expect(w + "angular_is_degree", lambda: R.sval(rs["angular_is_degree"]), False)
        if e["emode"] == 2:
            efix = sc.array(dims=["d"], values=np.asarray(e["efix"][0], dtype=float), unit=e["efix"][1]) \
                .to(unit="meV", dtype="float64").values
            en = sc.array(dims=["d", "e"], values=_en_supplied(e), unit=e["en"][1]) \
                .to(unit="meV", dtype="float64").values  # (det, en)
            expect(w + "efix", lambda: R.farr(rs["efix"]), efix)
            expect(w + "en", lambda: R.farr(rs["en"]), en.T.copy())  # file dims (n_en, n_det)
        else:
            efix = np.array([sc.scalar(float(e["efix"][0]), unit=e["efix"][1]).to(unit="meV", dtype="float64").value])
            en = sc.array(dims=["e"], values=_en_supplied(e), unit=e["en"][1]) \
                .to(unit="meV", dtype="float64").values
            expect(w + "efix", lambda: R.farr(rs["efix"]), efix)
            expect(w + "en", lambda: R.farr(rs["en"]), en.reshape(-1, 1))


def _short(x):
    s = repr(x.tolist() if isinstance(x, np.ndarray) else x)
    return s if len(s) < 200 else s[:200] + "..."


def _judge_reader(self, scn, ctx, fin, sink, dec):
    """The package's own reader must return the same numbers, strings and shapes, and
    never a unit of another physical dimension."""
    import scipp as sc
    import scippneutron.io.sqw as sqw

    full_filename, filepath, filename = self._expected_paths(scn)
    n_runs = len(fin["pix"]["runs"]) if "pix" in fin else 0

    def bad(what, msg, **sig):
        ctx.violate("reader", f"{what}: {msg}", kind="reader:" + what, **sig)

    def same(what, got, want):
        try:
            if isinstance(want, np.ndarray):
                g = np.asarray(got)
                ok = g.shape == want.shape and np.array_equal(g.astype(float), want.astype(float))
            elif isinstance(want, float):
                ok = float(got) == want
            else:
                ok = got == want
        except Exception as e:  # noqa: BLE001
            ok = False
            got = f"<{type(e).__name__}: {e}>"
        if not ok:
            bad(what, f"reader returned {_short(got)}, supplied/expected {_short(want)}")

    def qty(what, var, want_values, unit):
        """var must carry a unit of the same dimension as ``unit`` and the right numbers."""
        try:
            if var.unit is None:
                bad(what + ".unit", f"reader dropped the unit (expected dimension of {unit})", unit="none")
                return
            conv = var.to(unit=unit)
        except sc.UnitError:
            bad(what + ".unit", f"reader labels the value with unit {var.unit!s}, but it was written "
                f"in {unit} (different physical dimension)", unit="dimension")
            return
        except Exception as e:  # noqa: BLE001
            bad(what, f"cannot interpret {var!r}: {e!r}")
            return
        g = np.asarray(conv.values, dtype=float)
        w = np.asarray(want_values, dtype=float)
        if g.shape != w.shape:
            bad(what + ".shape", f"reader shape {g.shape}, expected {w.shape}")
        elif not np.allclose(g, w, rtol=1e-12, atol=0.0):
            bad(what, f"reader returned {_short(g)} {unit}, expected {_short(w)}")

    blocks: dict = {}
    try:
        if scn["sink"] == "mem":
            sink.seek(0)
        with warnings.catch_warnings(record=True) as wlist:
            warnings.simplefilter("always")
            rd = scn.get("reader") or {}
            kw = {}
            if rd.get("byteorder_arg"):
                kw["byteorder"] = {"native": sys.byteorder}.get(scn["byteorder"], scn["byteorder"])
            with sqw.Sqw.open(sink, **kw) as f:
                names = list(f.data_block_names())
                # blocks are addressed by position: any order, any number of times, either way of
                # giving the name
                order = {"reverse": names[::-1], "twice": names + names[::-1]}.get(rd.get("order"), names)
                for name in order:
                    try:
                        blocks[name] = f.read_data_block(*name) if rd.get("style") == "two" else f.read_data_block(name)
                    except Exception as e:  # noqa: BLE001
                        bad("/".join(name), f"read_data_block raised {type(e).__name__}: {e}",
                            exc=type(e).__name__)
        for w in wlist:
            if "Unable to parse SQW block" in str(w.message):
                bad("abort_parse", f"reader could not parse a block this writer wrote: {w.message}")
    except Exception as e:  # noqa: BLE001
        bad("open", f"Sqw.open raised {type(e).__name__}: {e}")
        return
    ctx.count("blocks_read_back", len(blocks))

    mh = blocks.get(("", "main_header"))
    if mh is not None:
        same("main_header.full_filename", getattr(mh, "full_filename", None), full_filename)
        same("main_header.title", getattr(mh, "title", None), scn["title"])
        same("main_header.nfiles", getattr(mh, "nfiles", None), n_runs)

    dpix = dec["blocks"].get(("pix", "data_wrap"))
    if ("pix", "data_wrap") in blocks and dpix is not None:
        got = blocks[("pix", "data_wrap")]
        want = dpix["value"]["data"]
        if not (isinstance(got, np.ndarray) and got.shape == want.shape and got.dtype.kind == "f"
                and got.dtype.itemsize == 4
                and np.array_equal(got.astype(np.float32).view(np.uint32), want.view(np.uint32))):
            bad("pix.data", f"reader returned array of shape {getattr(got, 'shape', None)} dtype "
                f"{getattr(got, 'dtype', None)}, file holds {want.shape} float32 (or values differ)")
    pm = blocks.get(("pix", "metadata"))
    if pm is not None and "pix" in fin:
        same("pix_metadata.npix", getattr(pm, "npix", None), fin["pix"]["pix"]["n"])
        same("pix_metadata.full_filename", getattr(pm, "full_filename", None), full_filename)
        dm = dec["blocks"].get(("pix", "metadata"))
        if dm is not None and fin["pix"]["pix"]["n"] > 0:
            try:
                want = ref_sqw.farr(ref_sqw.one_struct(dm["value"])["data_range"]).T  # (9, 2)
                same("pix_metadata.data_range", getattr(pm, "data_range", None), want)
            except (ref_sqw.DecodeError, KeyError):
                pass

    ed = blocks.get(("experiment_info", "expdata"))
    if ed is not None and "pix" in fin:
        if not isinstance(ed, list) or len(ed) != n_runs:
            bad("expdata.count", f"reader returned {type(ed).__name__} of length "
                f"{len(ed) if hasattr(ed, '__len__') else '?'}, supplied {n_runs} runs")
        else:
            for j, (got, e) in enumerate(zip(ed, fin["pix"]["runs"], strict=True)):
                w = f"expdata[{j}]."
                same(w + "run_id", got.run_id, e["run_id"])
                same(w + "filename", got.filename, e["filename"])
                same(w + "filepath", got.filepath, e["filepath"])
                same(w + "emode", got.emode.value, e["emode"])
                for k in ("psi", "omega", "dpsi", "gl", "gs"):
                    qty(w + k, getattr(got, k),
                        sc.scalar(float(e[k][0]), unit=e[k][1]).to(unit="rad", dtype="float64").value, "rad")
                same(w + "u", got.u.values, np.asarray(e["u"], dtype=float))
                same(w + "v", got.v.values, np.asarray(e["v"], dtype=float))
                if e["emode"] == 2:
                    efix = sc.array(dims=["d"], values=np.asarray(e["efix"][0], dtype=float),
                                    unit=e["efix"][1]).to(unit="meV", dtype="float64").values
                    en = sc.array(dims=["d", "e"], values=_en_supplied(e),
                                  unit=e["en"][1]).to(unit="meV", dtype="float64").values
                    qty(w + "efix", got.efix, efix, "meV")
                    g = got.en
                    if tuple(g.dims) != ("detector", "energy_transfer"):
                        bad(w + "en.dims", f"indirect-mode en has dims {g.dims}, written as "
                            "(detector, energy_transfer)")
                    else:
                        qty(w + "en", g, en, "meV")
                else:
                    qty(w + "efix", got.efix,
                        sc.scalar(float(e["efix"][0]), unit=e["efix"][1]).to(unit="meV", dtype="float64").value, "meV")
                    qty(w + "en", got.en,
                        sc.array(dims=["e"], values=_en_supplied(e), unit=e["en"][1])
                        .to(unit="meV", dtype="float64").values, "meV")

    ins = blocks.get(("experiment_info", "instruments"))
    if ins is not None and "instrument" in fin:
        c = fin["instrument"]
        if not isinstance(ins, list) or len(ins) != n_runs:
            bad("instruments.count", f"reader returned {len(ins) if isinstance(ins, list) else type(ins).__name__} "
                f"instruments for {n_runs} runs")
        else:
            for got in ins[:2]:
                same("instrument.name", getattr(got, "name", None), c["name"])
                src = getattr(got, "source", None)
                same("source.name", getattr(src, "name", None), c["source"]["name"])
                same("source.target_name", getattr(src, "target_name", None), c["source"]["target"])
                fr = getattr(src, "frequency", None)
                same("source.frequency", None if fr is None else float(fr.value), float(c["source"]["freq"][0]))
    sm = blocks.get(("experiment_info", "samples"))
    if sm is not None and "sample" in fin:
        c = fin["sample"]
        if not isinstance(sm, list) or len(sm) != n_runs:
            bad("samples.count", f"reader returned {len(sm) if isinstance(sm, list) else type(sm).__name__} "
                f"samples for {n_runs} runs")
        else:
            for got in sm[:2]:
                same("sample.name", getattr(got, "name", None), c["name"])
                qty("sample.lattice_spacing", got.lattice_spacing,
                    sc.vector(c["alatt"][0], unit=c["alatt"][1]).to(unit="angstrom").values, "angstrom")
                qty("sample.lattice_angle", got.lattice_angle,
                    sc.vector(c["angdeg"][0], unit=c["angdeg"][1]).to(unit="deg").values, "deg")

    md = blocks.get(("data", "metadata"))
    if md is not None and "dnd" in fin and hasattr(md, "axes"):
        m = fin["dnd"]["meta"]
        a, p = m["axes"], m["proj"]
        units4 = ["1/angstrom"] * 3 + ["meV"]
        ax, pr = md.axes, md.proj
        same("axes.title", ax.title, a["title"])
        same("axes.label", list(ax.label), list(a["label"]))
        same("axes.filename", ax.filename, filename)
        same("axes.filepath", ax.filepath, filepath)
        for k in range(4):
            qty(f"axes.img_scales[{k}]", ax.img_scales[k],
                sc.scalar(float(a["img_scales"][k][0]), unit=a["img_scales"][k][1]).to(unit=units4[k]).value,
                units4[k])
            qty(f"axes.img_range[{k}]", ax.img_range[k],
                sc.array(dims=["r"], values=np.asarray(a["img_range"][k][0], dtype=float),
                         unit=a["img_range"][k][1]).to(unit=units4[k]).values, units4[k])
            qty(f"axes.offset[{k}]", ax.offset[k],
                sc.scalar(float(a["offset"][k][0]), unit=a["offset"][k][1]).to(unit=units4[k]).value, units4[k])
            qty(f"proj.offset[{k}]", pr.offset[k],
                sc.scalar(float(p["offset"][k][0]), unit=p["offset"][k][1]).to(unit=units4[k]).value, units4[k])
        same("axes.n_bins_all_dims", ax.n_bins_all_dims.values, np.asarray(a["n_bins"]))
        same("axes.single_bin_defines_iax", ax.single_bin_defines_iax.values, np.asarray(a["single_bin"]))
        same("axes.dax", ax.dax.values, np.asarray(a["dax"]))
        same("axes.changes_aspect_ratio", ax.changes_aspect_ratio, a["changes_aspect_ratio"])
        same("proj.title", pr.title, p["title"])
        same("proj.label", list(pr.label), list(p["label"]))
        same("proj.non_orthogonal", pr.non_orthogonal, p["nonorthogonal"])
        vec = lambda x, u: sc.vector(x[0], unit=x[1]).to(unit=u).values  # noqa: E731
        qty("proj.lattice_spacing", pr.lattice_spacing, vec(p["alatt"], "angstrom"), "angstrom")
        qty("proj.lattice_angle", pr.lattice_angle, vec(p["angdeg"], "deg"), "deg")
        qty("proj.u", pr.u, vec(p["u"], "1/angstrom"), "1/angstrom")
        qty("proj.v", pr.v, vec(p["v"], "1/angstrom"), "1/angstrom")
        if p["w"] is None:
            same("proj.w", pr.w, None)
        else:
            qty("proj.w", pr.w, vec(p["w"], "1/angstrom"), "1/angstrom")
    nd = blocks.get(("data", "nd_data"))
    if nd is not None and "dnd" in fin:
        nb = tuple(fin["dnd"]["meta"]["axes"]["n_bins"])
        try:
            v, e, c = nd
            for nm, arr in (("values", v), ("errors", e), ("counts", c)):
                if tuple(arr.shape) not in (nb, nb[::-1]) or np.any(arr != 0):
                    bad("nd_data." + nm, f"reader returned shape {arr.shape} / non-zero data for a zero "
                        f"histogram declared {nb}")
        except Exception as ex:  # noqa: BLE001
            bad("nd_data", f"unexpected reader result {type(nd).__name__}: {ex!r}")


SqwEngine._judge_reader = _judge_reader


def _nontrivial(self, scn, res):
    fin = final_calls(scn["calls"])
    if self.prop == "C13":
        return ("pix" in fin and fin["pix"]["pix"]["n"] >= 1) or "dnd" in fin
    if not fin:
        return False
    fired = sum(v[1] for v in res["faults"].values())
    pr = res["probes"]
    return bool(fired or pr.get("permuted_twin") or pr.get("chunk<pixels"))


def _describe(self, scn):
    s = copy.deepcopy(scn)
    for c in s["calls"]:
        if c["op"] == "pix":
            c["runs"] = c["runs"][:1] + ([f"... {len(c['runs']) - 1} more runs"] if len(c["runs"]) > 1 else [])
        if c["op"] == "dnd":
            c["meta"] = {"axes": {"n_bins": c["meta"]["axes"]["n_bins"]}, "...": "abridged"}
    return s


def _shrink(self, scn, violation=None):
    s = scn
    hint = (violation or {}).get("hint") or {}
    if "fsize_k" in hint and s["faults"]["mode"] == "fsize":
        c = copy.deepcopy(s)
        c["faults"] = {"mode": "fsize_k", "k": hint["fsize_k"]}
        yield c
    if "write_k" in hint and s["faults"]["mode"] == "enum_writes":
        c = copy.deepcopy(s)
        c["faults"] = {"mode": "write_k", "err": s["faults"].get("err", "ENOSPC"), "k": hint["write_k"], "partial": 0.0, "retry": False}
        yield c
    # 1. faults: enumerate -> the failing k is unknown here; try removing the plan
    if s["faults"]["mode"] != "none":
        c = copy.deepcopy(s)
        c["faults"] = {"mode": "none"}
        yield c
        if s["faults"]["mode"] == "enum_writes":
            # binary-search style: replace the enumeration by single crash points
            for k in (0, 1, 2, 3, 5, 8, 13, 21, 34, 55, 89, 144, 233):
                c = copy.deepcopy(s)
                c["faults"] = {"mode": "write_k", "err": s["faults"].get("err", "ENOSPC"), "k": k, "partial": 0.0, "retry": False}
                yield c
        if s["faults"]["mode"] == "fsize":
            for fr in s["faults"].get("fracs", []):
                c = copy.deepcopy(s)
                c["faults"] = {"mode": "fsize", "fracs": [fr], "tail": []}
                yield c
            for t in s["faults"].get("tail", []):
                c = copy.deepcopy(s)
                c["faults"] = {"mode": "fsize", "fracs": [], "tail": [t]}
                yield c
    for key in ("permute_seed", "recreate"):
        if s.get(key):
            c = copy.deepcopy(s)
            c[key] = None if key == "permute_seed" else False
            yield c
    if s.get("preexist") is not None:
        c = copy.deepcopy(s)
        c["preexist"] = None
        yield c
    hint = (violation or {}).get("hint") or {}
    if s.get("size_sweep") and "size_case" in hint:
        c = copy.deepcopy({k: v for k, v in s.items() if k != "size_sweep"})
        c["calls"][0]["pix"]["n"] = hint["size_case"]["n"]
        c.update(byteorder=hint["size_case"]["byteorder"], chunk=hint["size_case"]["chunk"])
        yield c
    if s.get("interleave") and "il_where" in hint and (
            s["interleave"].get("sweep") or s["interleave"].get("at") != hint["il_at"]):
        c = copy.deepcopy(s)
        c["interleave"] = {"where": hint["il_where"], "at": hint["il_at"], "other": s["interleave"]["other"]}
        yield c
    if s.get("interrupt") and "int_where" in hint and (s["interrupt"].get("sweep") or s["interrupt"].get("at") != hint["int_at"]):
        c = copy.deepcopy(s)
        c["interrupt"] = {"where": hint["int_where"], "at": hint["int_at"]}
        c.pop("interleave", None)
        yield c
    if s.get("interrupt"):
        c = copy.deepcopy(s)
        del c["interrupt"]
        yield c
    for key in ("predecessor", "interleave"):
        if s.get(key):
            c = copy.deepcopy(s)
            del c[key]
            yield c
            sub = s[key] if key == "predecessor" else s[key]["other"]
            for k in range(len(sub["calls"])):
                c = copy.deepcopy(s)
                del (c[key] if key == "predecessor" else c[key]["other"])["calls"][k]
                yield c
            if key == "interleave" and "frac" in s[key]:
                for fr in (0.0, 0.25, 0.5, 0.75):
                    if abs(s[key]["frac"] - fr) > 1e-9:
                        c = copy.deepcopy(s)
                        c[key]["frac"] = fr
                        yield c
    if s.get("path_as") == "str":
        c = copy.deepcopy(s)
        c["path_as"] = "Path"
        yield c
    # 2. calls
    n = len(s["calls"])
    for k in range(n):
        c = copy.deepcopy(s)
        del c["calls"][k]
        yield c
    # 3. simplify
    if s["title"]:
        c = copy.deepcopy(s)
        c["title"] = ""
        yield c
    if s["byteorder"] != "little":
        c = copy.deepcopy(s)
        c["byteorder"] = "little"
        yield c
    if s["sink"] == "path" and s["faults"]["mode"] == "none":
        c = copy.deepcopy(s)
        c["sink"], c["fname"], c["recreate"], c["preexist"] = "mem", None, False, None
        yield c
    if s["sink"] == "path" and s["fname"] != "f.sqw":
        c = copy.deepcopy(s)
        c["fname"] = "f.sqw"
        yield c
    if s.get("default_chunk"):
        c = copy.deepcopy(s)
        c["default_chunk"] = False
        c["chunk"] = 8192
        yield c
    for k, call in enumerate(s["calls"]):
        if call["op"] == "pix":
            p = call["pix"]
            for n2 in (0, 1, 2, 10, p["n"] // 2, p["n"] - 1):
                if 0 <= n2 < p["n"]:
                    c = copy.deepcopy(s)
                    c["calls"][k]["pix"]["n"] = n2
                    yield c
            if len(call["runs"]) > 1:
                c = copy.deepcopy(s)
                c["calls"][k]["runs"] = call["runs"][:1]
                yield c
                c = copy.deepcopy(s)
                c["calls"][k]["runs"] = call["runs"][1:]
                yield c
            if p["vdtype"] != "float64" or p["idtype"] != "int64" or p["dist"] != "ints" or p.get("extra_coord"):
                c = copy.deepcopy(s)
                c["calls"][k]["pix"].update(vdtype="float64", idtype="int64", dist="ints", extra_coord=False)
                yield c
            if p.get("layout", "plain") != "plain":
                c = copy.deepcopy(s)
                c["calls"][k]["pix"]["layout"] = "plain"
                yield c
            canon = {"u1": "1/angstrom", "u2": "1/angstrom", "u3": "1/angstrom", "u4": "meV", "signal": "count"}
            if p["units"] != canon:
                c = copy.deepcopy(s)
                c["calls"][k]["pix"]["units"] = canon
                yield c
            for j, e in enumerate(call["runs"]):
                if e["emode"] == 2:
                    c = copy.deepcopy(s)
                    e2 = c["calls"][k]["runs"][j]
                    e2["emode"] = 1
                    e2["efix"] = [e["efix"][0][0], e["efix"][1]]
                    e2["en"] = [e["en"][0][0], e["en"][1], "e"]
                    yield c
                    break
        if call["op"] == "dnd":
            nb = call["meta"]["axes"]["n_bins"]
            if any(x > 1 for x in nb):
                c = copy.deepcopy(s)
                c["calls"][k]["meta"]["axes"]["n_bins"] = [1] * len(nb)
                yield c
    if not s.get("default_chunk"):
        for ch in (1, 2, 9, 10, s["chunk"] // 2):
            if 1 <= ch < s["chunk"]:
                c = copy.deepcopy(s)
                c["chunk"] = ch
                yield c


SqwEngine.nontrivial = _nontrivial
SqwEngine.describe = _describe
SqwEngine.shrink = _shrink
SqwEngine.selftest_indices = lambda self, n: [0, 24, SWEEP_RUNS] + list(
    range(SWEEP_RUNS + SIZE_SWEEP_RUNS, SWEEP_RUNS + SIZE_SWEEP_RUNS + n - 3))


def make_engine(prop):
    return SqwEngine(prop)
