"""C15 (thin) — XYE save/load through simulated text sinks and real paths, with
write faults, retry, and reload in a freshly forked process.

Honest framing (DESIGN.md §5 C15): load(save(x)) is nearly a pure function; the
simulator contributes the storage seam (sink kinds, acknowledgement under faults,
restart), the rest is workload values.
"""

from __future__ import annotations

import copy
import json
import os
import warnings

import numpy as np

from .. import core, seams
from . import Engine

SPECIAL = [0.0, -0.0, 5e-324, -5e-324, 2.2250738585072014e-308, 1.7976931348623157e308,
           -1.7976931348623157e308, 1.0, -1.0, 0.1, 1 / 3, 1e-300, 1e300, 123456789.123456789,
           2.0 ** 53, 2.0 ** 53 + 2, 4.9e-324 * 7]
HEADERS = ["", "x y e", "# already commented", "line1\nline2", "\nleading newline", "trailing\n",
           "1.0 2.0 3.0", "a\n1.0 2.0 3.0\nb", "   leading blanks", "#", "##\n#\n", "tab\there",
           "0 0 0\n0 0 0", "a # b", "% not a comment", "-1e5 nan inf", "a\r1 2 3", "a\r\n4 5 6",
           "mac\rline\rbreaks", "7 8 9\r", "page 1\x0c7 8 9", "vt\x0b1 2 3", "fs\x1c4 5 6", "gs\x1d1 1 1",
           "rs\x1e2 2 2", "us\x1f3 3 3", "del\x7f", "bell\x07 1 2 3", "nul\x00x"]
UNITS = ["counts", "dimensionless", "m", "angstrom", "us", "meV", None]
REFUSALS = ["no_variances", "bin_edges", "mask", "mask_true", "mask_scalar", "mask_scalar_false", "mask_two",
            "ndim0", "ndim2", "no_coord", "ambiguous"]
# coordinate names end up in the generated header
HOSTILE_NAMES = ["a\r7 8 9", "a\n7 8 9", "a\r\n1 2 3\r", "# x", "1 2 3", "\r", "t o f", "x\x0b1 1 1", "x\x0c2 2 2",
                 "x\x1c1 1 1", "x\x1e1 1 1", "caf\u00e9", "\u03bb [\u00c5]", "q\x851 2 3", "q\u20281 2 3", "w" * 300, "'", "\"",
                 "x\ty", "nul\x00x"]


def _ulp_dist(a: np.ndarray, b: np.ndarray) -> np.ndarray:
    ia = a.view(np.int64).astype(object)
    ib = b.view(np.int64).astype(object)
    f = lambda i: i if i >= 0 else -(i & 0x7FFFFFFFFFFFFFFF)  # noqa: E731
    return np.array([abs(f(int(x)) - f(int(y))) for x, y in zip(ia, ib, strict=True)], dtype=object)


class XyeEngine(Engine):
    prop = "C15"
    level = "exploration"
    title = "XYE files round-trip coordinates and values exactly, uncertainties to rounding"
    rule = (
        "A case is one seeded save/load program: a 1-d data array (1..1e4 rows of finite float64 "
        "incl. subnormal, +-max, -0.0; 1..5 coordinates; chosen or deduced coordinate; header "
        "default / empty / seeded ASCII incl. newlines, '#', number-like lines) saved through a "
        "SimStringIO or a real path and loaded back (same process; for paths also in a freshly "
        "forked process), or one of the eleven refusal cases (incl. 0-d masks); coordinate names incl. control characters and non-ASCII text (they end up in the generated header); fault plans: none, ENOSPC at every "
        "write ordinal of the sink (enumerated for small tables), RLIMIT_FSIZE disk-full at seeded "
        "offsets on paths, each followed by one retry. Distinct = distinct scenario digest; "
        "non-trivial = a round trip with >= 2 rows was compared bit-for-bit, or a refusal was "
        "checked to leave the sink unwritten, or a fault fired."
    )
    assumptions = [
        "numpy savetxt/loadtxt are the real ones (trusted as dependencies, exercised as is)",
        "variances limited to [0, 1e300] (sqrt then square stays finite); 'a few ulp' = 4",
        "torn-file loading is not judged (format has no integrity data)",
        "acknowledgement rule for writes: a save that returns has produced a loadable, equal table",
        "headers are ASCII: printable characters plus control characters incl. \\n \\r \\t VT FF FS GS RS US",
    ]
    components_real = ["scippneutron.io.xye", "numpy.savetxt/loadtxt", "scipp", "tmpfs files"]
    components_stubbed = ["text sink = SimStringIO (records writes, fails at a scheduled ordinal)",
                          "disk-full = RLIMIT_FSIZE", "restart = reload in a forked process"]

    def budget(self, tier):
        return 4000 if tier == "quick" else 250000

    def setup(self):
        import signal

        signal.signal(signal.SIGXFSZ, signal.SIG_IGN)
        seams.install_gzip_clock()  # gzip stamps its header with the wall clock

    # ------------------------------------------------------------- generate
    def _gvals(self, rng, n, kind):
        out = []
        for _ in range(n):
            r = rng.random()
            if r < 0.15:
                out.append(rng.choice(SPECIAL))
            elif r < 0.3:
                out.append(rng.uniform(-1, 1) * 10.0 ** rng.randrange(-300, 300))
            else:
                out.append(rng.uniform(-1000, 1000))
        if kind == "var":
            out = [min(abs(x), 1e300) for x in out]
        return out

    def generate(self, rng, tier, i):
        scn = self._gen_one(rng, tier)
        if rng.random() < 0.1:
            scn["locale"] = "C"  # default text encoding of open() is strict ASCII
        if scn["kind"] == "roundtrip" and scn["n"] <= 200 and rng.random() < 0.12:
            scn["interrupt"] = {"frac": rng.random(), "where": rng.choice(["line", "write", "write"])}
        if rng.random() < 0.15:
            scn["logging"] = rng.choice(["INFO", "DEBUG"])  # the application has logging switched on
        if scn["kind"] == "roundtrip" and (i < 6 or rng.random() < 0.15) and scn["n"] <= 200:
            if i < 6 or rng.random() < 0.5:
                other = self._twin(scn, rng)
            else:
                other = self._gen_one(rng, tier)
            if other["kind"] == "roundtrip" and other["n"] <= 200:
                other.update(sink="mem", faults={"mode": "none"}, fresh_process=False)
                scn["interleave"] = {"frac": rng.random(), "other": other,
                                     "where": rng.choice(["line", "write", "write", "site"])}
                if i < 6:
                    # enumeration: every distinct line of xye.py and every write() of this save
                    scn["interleave"] = {"sweep": True, "other": other}
                    scn["interrupt"] = {"sweep": True}
                    scn["faults"] = {"mode": "none"}
        if scn["kind"] == "roundtrip" and rng.random() < 0.35:
            # the same target is written again with other data (and loaded again)
            second = self._gen_one(rng, tier)
            if second["kind"] == "roundtrip":
                for k in ("sink", "fname", "faults", "fresh_process"):
                    second[k] = scn[k]
                second["faults"] = {"mode": "none"}
                scn["second"] = second
        return scn

    def _twin(self, scn, rng):
        """Another caller saving the same kind of table: same rows, names and header, other numbers."""
        t = copy.deepcopy({k: v for k, v in scn.items() if k not in ("interleave", "second")})
        n = t["n"]
        for key, kind in (("values", "val"), ("variances", "var")):
            t[key] = {"seed": rng.randrange(1 << 32)} if isinstance(t[key], dict) else self._gvals(rng, n, kind)
        for c in t["coords"].values():
            c["vals"] = {"seed": rng.randrange(1 << 32)} if isinstance(c["vals"], dict) else self._gvals(rng, n, "val")
        return t

    def _gen_one(self, rng, tier):
        r = rng.random()
        if r < 0.12:
            n = 1
        elif r < 0.70:
            n = rng.randrange(2, 60)
        elif r < 0.85:
            # around multiples of plausible block sizes: k*B - 1, k*B, k*B + 1
            b = rng.choice([10, 100, 1000, 1000, 128, 256, 512, 1024, 2048, 4096, 8192])
            n = max(1, min(10000, b * rng.randrange(1, max(2, 10000 // b + 1)) + rng.choice([-1, 0, 1])))
        else:
            n = int(10 ** rng.uniform(2, 4))
        compact = n > 200
        n_coords = rng.choice([1, 1, 2, 3, 5])
        dim = rng.choice(["x", "tof", "dspacing", "two_theta"])
        names = [dim] + ["c%d" % k for k in range(1, n_coords)]
        r0 = rng.random()
        if r0 < 0.2:
            names[0] = "other"  # no dimension-coordinate
        elif r0 < 0.35:
            names[0] = rng.choice(HOSTILE_NAMES)  # text that ends up in the generated header
        coords = {}
        for nm in names:
            coords[nm] = {"unit": rng.choice(UNITS),
                          "dtype": rng.choice(["float64", "float64", "float64", "float32", "int64", "int32"]),
                          "edges": False,
                          "vals": {"seed": rng.randrange(1 << 32)} if compact else self._gvals(rng, n, "val")}
        if n_coords > 1 and rng.random() < 0.2:
            coords[names[-1]]["edges"] = True  # an *unselected* bin-edge coordinate
        if dim in coords or n_coords == 1:
            coord_arg = rng.choice([None, None, names[0], rng.choice(names)])
        else:
            coord_arg = rng.choice(names)
        if coord_arg is not None and coords[coord_arg]["edges"]:
            coord_arg = names[0]
        hk = rng.random()
        if hk < 0.3:
            header = "$default"
        elif hk < 0.4:
            header = ""
        elif hk < 0.7:
            header = rng.choice(HEADERS)
        else:
            alphabet = ("abcXYZ0123456789 .-+e#\n\t\r,;:'\"()[]%$!?*/\\=<>_"
                        "\x0b\x0c\x1c\x1d\x1e\x1f\x01\x7f")
            header = "".join(rng.choice(alphabet) for _ in range(rng.randrange(1, 80)))
        scn = {
            "kind": "roundtrip", "n": n, "dim": dim,
            "unit": rng.choice(UNITS), "coords": coords, "coord_arg": coord_arg,
            "values": {"seed": rng.randrange(1 << 32)} if compact else self._gvals(rng, n, "val"),
            "variances": {"seed": rng.randrange(1 << 32)} if compact else self._gvals(rng, n, "var"),
            "header": header,
            "sink": rng.choice(["mem", "mem", "path", "path_str", "fileobj"]),
            # numpy's text I/O compresses / decompresses by file-name suffix
            "fname": rng.choice(["t.xye", "d/t.xye", "name with blanks.dat", "x", "t.xye", "t.xye.gz",
                                 "d/t.dat.bz2", "t.xz", "T.XYE", "t.xye.GZ"]),
            "load_coord": rng.choice([None, None, "loaded_coord"]),
            "fresh_process": rng.random() < 0.3,
            "layout": rng.choice(["plain", "plain", "slice", "strided"]),
            "units_as": rng.choice(["str", "Unit"]),
            "coord_order": rng.randrange(1, 1 << 20) if rng.random() < 0.4 else 0,
            "unaligned": [nm for nm in names if rng.random() < 0.5] if rng.random() < 0.25 else [],
            "faults": {"mode": "none"},
        }
        f = rng.random()
        if f < 0.25 and n <= 200:
            if scn["sink"] == "mem":
                scn["faults"] = {"mode": "enum_writes", "partial": rng.choice([0.0, 0.5]), "err": rng.choice(seams.WRITE_ERRORS)}
            else:
                scn["faults"] = {"mode": "fsize", "fracs": [rng.random() for _ in range(5)]}
        if scn["sink"] == "fileobj":
            # a real text file opened (and closed) by the caller; write errors would surface in the
            # caller's close(), so this sink kind runs without the fault family
            scn["faults"] = {"mode": "none"}
        if rng.random() < 0.15:
            scn["kind"] = "refusal"
            scn["refusal"] = rng.choice(REFUSALS)
            scn["faults"] = {"mode": "none"}
        return scn

    # ------------------------------------------------------------ materialise
    def _arr(self, spec, n, kind):
        if isinstance(spec, dict):
            g = np.random.default_rng(spec["seed"])
            a = g.uniform(-1000, 1000, n) * 10.0 ** g.integers(-30, 30, n)
            k = g.integers(0, n, max(1, n // 20))
            a[k] = g.choice(np.array(SPECIAL), len(k))
            if kind == "var":
                a = np.minimum(np.abs(a), 1e300)
            return a
        return np.asarray(spec, dtype=np.float64)

    def _coord_arr(self, c, n):
        """Coordinate values in the coordinate's own dtype (what save_xye receives)."""
        v = self._arr(c["vals"], n, "val")
        dt = c.get("dtype", "float64")
        if dt == "float64":
            return v
        with np.errstate(all="ignore"):
            if dt == "float32":
                v = np.clip(v, -3e38, 3e38).astype("float32")
            else:
                v = np.clip(np.nan_to_num(v), -2e9, 2e9).astype(dt)
        return v

    def _make(self, scn):
        import scipp as sc

        n, dim = scn["n"], scn["dim"]
        from .. import layouts

        how = scn.get("layout", "plain")
        data = layouts.embed(sc.array(dims=[dim], values=self._arr(scn["values"], n, "val"),
                                      variances=self._arr(scn["variances"], n, "var"), unit=scn["unit"]), dim, how)
        coords = {}
        for nm, c in scn["coords"].items():
            v = self._coord_arr(c, n)
            if c["edges"]:
                v = np.concatenate([v, [v[-1] + 1.0]])
            coords[nm] = layouts.embed(sc.array(dims=[dim], values=v, unit=c["unit"]), dim, how)
        if scn.get("coord_order"):
            import random as _r

            keys = list(coords)
            _r.Random(scn["coord_order"]).shuffle(keys)
            coords = {k: coords[k] for k in keys}
        da = sc.DataArray(data, coords=coords)
        for nm in scn.get("unaligned") or []:
            # what transform_coords / slicing leave behind: still a coordinate of the data
            if nm in da.coords:
                da.coords.set_aligned(nm, False)
        rf = scn.get("refusal") if scn["kind"] == "refusal" else None
        coord_arg = scn["coord_arg"]
        if rf == "no_variances":
            da = sc.DataArray(sc.values(da.data), coords=coords)
        elif rf == "bin_edges":
            first = coord_arg or (dim if dim in coords else next(iter(coords)))
            c = da.coords[first]
            da.coords[first] = sc.array(dims=[dim], values=np.concatenate([c.values, [0.0]]), unit=c.unit)
            coord_arg = first
        elif rf == "mask":
            da.masks["m"] = sc.array(dims=[dim], values=np.zeros(n, dtype=bool))
        elif rf == "mask_true":
            da.masks["m"] = sc.array(dims=[dim], values=np.arange(n) % 2 == 0)
        elif rf == "mask_scalar":
            # what slicing one spectrum out of 2-d data with a per-spectrum mask leaves behind
            da.masks["bad_detector"] = sc.scalar(True)
        elif rf == "mask_scalar_false":
            da.masks["bad_detector"] = sc.scalar(False)
        elif rf == "mask_two":
            da.masks["flag"] = sc.scalar(True)
            da.masks["m"] = sc.array(dims=[dim], values=np.zeros(n, dtype=bool))
        elif rf == "ndim0":
            da = sc.DataArray(sc.scalar(1.0, variance=1.0), coords={"x": sc.scalar(2.0)})
            coord_arg = "x"
        elif rf == "ndim2":
            da = sc.DataArray(
                sc.array(dims=[dim, "y"], values=np.ones((n, 2)), variances=np.ones((n, 2))),
                coords={dim: sc.array(dims=[dim], values=np.arange(float(n)))})
            coord_arg = None
        elif rf == "no_coord":
            da = sc.DataArray(data)
            coord_arg = None
        elif rf == "ambiguous":
            da = sc.DataArray(data, coords={
                "a": sc.array(dims=[dim], values=np.arange(float(n))),
                "b": sc.array(dims=[dim], values=np.arange(float(n)))})
            coord_arg = None
        return da, coord_arg

    def _selected(self, scn):
        if scn["coord_arg"] is not None:
            return scn["coord_arg"]
        names = list(scn["coords"])
        if len(names) == 1:
            return names[0]
        return scn["dim"] if scn["dim"] in names else None

    # --------------------------------------------------------------- execute
    def _target(self, scn, ctx, **kw):
        if scn["sink"] == "mem":
            return seams.SimStringIO(ctx=ctx, **kw)
        d = os.path.dirname(scn["fname"])
        if d:
            os.makedirs(d, exist_ok=True)
        if scn["sink"] == "path":
            from pathlib import Path

            return Path(scn["fname"])
        return scn["fname"]

    def _save(self, scn, ctx, target, label="save"):
        import scippneutron.io.xye as xye

        da, coord_arg = self._make(scn)
        kw = {}
        if scn["header"] != "$default":
            kw["header"] = scn["header"]
        if coord_arg is not None:
            kw["coord"] = coord_arg
        if scn["sink"] == "fileobj":
            with open(target, "w") as fh:
                _, exc = core.capture(xye.save_xye, fh, da, **kw)
        else:
            _, exc = core.capture(xye.save_xye, target, da, **kw)
        ctx.log(label, "raised:" + exc.name if exc else "returned")
        return exc

    def _load(self, scn, source):
        import scippneutron.io.xye as xye

        kw = {"dim": scn["dim"], "unit": scn["unit"],
              "coord_unit": scn["coords"][self._selected(scn)]["unit"]}
        if scn.get("units_as") == "Unit":
            # units may be given as str, sc.Unit or None
            import scipp as sc

            kw = {k: (sc.Unit(v) if k != "dim" and v is not None else v) for k, v in kw.items()}
        if scn["load_coord"]:
            kw["coord"] = scn["load_coord"]
        if scn["sink"] == "fileobj" and isinstance(source, str):
            with open(source) as fh:
                return xye.load_xye(fh, **kw)
        return xye.load_xye(source, **kw)

    def _compare(self, scn, ctx, loaded, where):
        sel = self._selected(scn)
        n = scn["n"]
        want_c = self._coord_arr(scn["coords"][sel], n).astype(np.float64)
        want_v = self._arr(scn["values"], n, "val")
        want_e = self._arr(scn["variances"], n, "var")
        cname = scn["load_coord"] or scn["dim"]

        def bad(what, msg):
            ctx.violate("roundtrip", f"[{where}] {what}: {msg}", kind="roundtrip:" + what)

        try:
            if loaded.dims != (scn["dim"],) or loaded.shape != (n,):
                bad("shape", f"loaded dims/shape {loaded.dims}{loaded.shape}, saved ({scn['dim']},)({n},)")
                return
            if cname not in loaded.coords:
                bad("coord_name", f"loaded coords {list(loaded.coords)}, expected {cname!r}")
                return
            c = np.ascontiguousarray(loaded.coords[cname].values, dtype=np.float64)
            v = np.ascontiguousarray(loaded.values, dtype=np.float64)
            e = np.ascontiguousarray(loaded.variances, dtype=np.float64)
        except Exception as ex:  # noqa: BLE001
            bad("structure", f"unexpected loaded object: {ex!r}")
            return
        if not np.array_equal(c.view(np.uint64), want_c.view(np.uint64)):
            k = int(np.argmax(c.view(np.uint64) != want_c.view(np.uint64)))
            bad("coord_bits", f"coordinate row {k}: loaded {c[k]!r} saved {want_c[k]!r}")
        if not np.array_equal(v.view(np.uint64), want_v.view(np.uint64)):
            k = int(np.argmax(v.view(np.uint64) != want_v.view(np.uint64)))
            bad("value_bits", f"value row {k}: loaded {v[k]!r} saved {want_v[k]!r}")
        d = _ulp_dist(e, want_e)
        if np.any(~np.isfinite(e)) or max(d) > 4:
            k = int(np.argmax(d))
            bad("variance_ulp", f"variance row {k}: loaded {e[k]!r} saved {want_e[k]!r} ({d[k]} ulp)")
        ctx.count("rows_compared", n)

    def _load_and_compare(self, scn, ctx, target, where):
        if scn["sink"] == "mem":
            text = target.getvalue()
            ctx.log("file", len(text), core.h64(text))
            import io

            src = io.StringIO(text)
        else:
            with open(scn["fname"], "rb") as f:
                raw = f.read()
            ctx.log("file", len(raw), core.h64(raw))
            src = target
        loaded, exc = core.capture(self._load, scn, src)
        if exc is not None:
            ctx.violate("roundtrip", f"[{where}] load_xye of the acknowledged file raised {exc}",
                        kind="roundtrip:load_raised")
            return
        self._compare(scn, ctx, loaded, where)
        if scn["sink"] != "mem" and scn.get("fresh_process"):
            self._fresh_process_load(scn, ctx)

    def _fresh_process_load(self, scn, ctx):
        """'Restart': nothing but the file survives; a freshly forked process loads it."""
        r, w = os.pipe()
        pid = os.fork()
        if pid == 0:
            code = 0
            try:
                os.close(r)
                sub = core.Ctx("C15")
                loaded, exc = core.capture(self._load, scn, scn["fname"])
                if exc is not None:
                    sub.violate("roundtrip", f"[fresh process] load raised {exc}",
                                kind="roundtrip:load_raised")
                else:
                    self._compare(scn, sub, loaded, "fresh process")
                os.write(w, json.dumps(sub.violations).encode())
            except BaseException:  # noqa: BLE001
                code = 3
            finally:
                os._exit(code)
        os.close(w)
        data = b""
        while True:
            b = os.read(r, 65536)
            if not b:
                break
            data += b
        os.close(r)
        _, st = os.waitpid(pid, 0)
        if st != 0 or not data:
            raise core.HarnessError(f"fresh-process loader failed, status {st}")
        ctx.probe("reloaded_in_fresh_process")
        for v in json.loads(data):
            ctx.violate(v["clause"], v["msg"], **v["sig"])

    def execute(self, scn, ctx, scratch):
        self._last_target = None
        seams.GZIP_TIME.reset()
        seams.GZIP_TIME.ctx = ctx
        self._execute_main(scn, ctx, scratch)
        if scn.get("second") and self._last_target is not None and not ctx.violations:
            self._second_write(scn, ctx, self._last_target)

    def _execute_main(self, scn, ctx, scratch):
        warnings.simplefilter("ignore")
        os.chdir(scratch)
        ctx.step(f"{scn['kind']}:{scn['sink']}:{scn['faults']['mode']}:n{min(scn['n'], 3)}:"
                 f"c{len(scn['coords'])}")
        if scn["kind"] == "refusal":
            return self._refusal(scn, ctx)
        ctx.probe("rows==1" if scn["n"] == 1 else "rows>1")
        ctx.probe("header_" + ("default" if scn["header"] == "$default" else
                               "empty" if scn["header"] == "" else
                               "multiline" if "\n" in scn["header"] else "single"))
        ctx.probe("sink_" + scn["sink"])
        target = self._target(scn, ctx)
        exc = self._save(scn, ctx, target)
        if exc is not None:
            if self._unencodable_here(scn, ctx, exc):
                return
            ctx.violate("save_raised", f"fault-free save_xye raised {exc}", kind="save_raised",
                        exc=exc.name)
            return
        self._last_target = target
        self._load_and_compare(scn, ctx, target, "fault-free")
        if scn.get("interleave") and not ctx.violations:
            self._interleaved(scn, ctx)
        if scn.get("interrupt") and not ctx.violations:
            self._interrupted(scn, ctx)
            if scn["sink"] in ("path", "path_str") and not ctx.violations:
                self._interrupted_path(scn, ctx)
                # put the scenario's own table back: the fault family below works on that file
                self._save(scn, ctx, self._target(scn, ctx), label="save_restore_own_table")
        writes = target.sim_writes if scn["sink"] == "mem" else None
        mode = scn["faults"]["mode"]
        if mode == "enum_writes" and scn["sink"] == "mem":
            ks = list(range(writes))
            for k in ks:
                self._write_fault(scn, ctx, k, scn["faults"].get("partial", 0.0), retry=(k == writes // 2))
            ctx.count("crash_points_tried", len(ks))
            ctx.probe("crash_points_enumerated_completely")
        elif mode == "write_k" and scn["sink"] == "mem":
            self._write_fault(scn, ctx, scn["faults"]["k"], 0.0, retry=True)
        elif mode in ("fsize", "fsize_k") and scn["sink"] != "mem":
            size = os.path.getsize(scn["fname"])
            if mode == "fsize_k":
                limits = [scn["faults"]["k"]]
            else:
                limits = sorted({0, 1, size - 1, max(0, size - 4096), max(0, size - 8192)} |
                                {int(fr * size) for fr in scn["faults"]["fracs"]})
            for k in limits:
                if not 0 <= k < size:
                    continue
                try:
                    os.remove(scn["fname"])
                except OSError:
                    pass
                ctx.fault_configured("disk_full_at_byte(RLIMIT_FSIZE)")
                with seams.FsizeLimit(k):
                    exc = self._save(scn, ctx, self._target(scn, ctx), label=f"save_fsize_{k}")
                ctx.fault_fired("disk_full_at_byte(RLIMIT_FSIZE)")
                ctx.site("dfull@" + ("header" if k < 80 else "tail" if size - k <= 8192 else "body"))
                if exc is None:
                    ctx.probe("acknowledged_under_disk_full")
                    got = open(scn["fname"], "rb").read() if os.path.exists(scn["fname"]) else b""
                    if len(got) != size:
                        ctx.violate(
                            "ack_truncated_file",
                            f"save_xye returned normally with the disk full at byte {k}; file has "
                            f"{len(got)} of {size} bytes", kind="ack_truncated_file",
                            _hint={"fsize_k": k})
            exc = self._save(scn, ctx, self._target(scn, ctx), label="save_after_disk_full")
            ctx.count("retries_after_fault")
            if exc is not None:
                ctx.violate("retry_failed", f"after the disk-full condition cleared save_xye raised {exc}",
                            kind="retry_failed")
            else:
                self._load_and_compare(scn, ctx, self._target(scn, ctx), "retry")

    def _interleave_once(self, a, b, ctx, where, at, totals, prefixes, tag=""):
        """Two callers save two data sets to two targets; the second caller's whole save runs while
        the first is at one scheduling point of save_xye: a line boundary of xye.py (by event
        ordinal or first execution of a distinct line) or inside one of its write() calls."""
        kind = {"line": "preempt_in_save", "site": "preempt_at_source_line", "write": "preempt_in_write"}[where]
        total = totals[where]
        tb = seams.SimStringIO(ctx=ctx)
        state = {}
        ctx.fault_configured(kind)

        def cb(frame):
            at_s = "write" if where == "write" else f"{frame.f_code.co_name}:{frame.f_lineno}"
            ctx.log("preempt", at_s, where, at, total)
            ctx.site("preempt@xye:" + ("write" if where == "write" else frame.f_code.co_name))
            state["exc"] = self._save(b, ctx, tb, label="save_other_caller")
            state["ran"] = True
            state["at"] = at_s

        if where == "write":
            # the first caller blocks in its at-th write(); the second caller's save runs meanwhile
            ta = seams.SimStringIO(ctx=ctx, yield_at={at: cb})
            ea = self._save(a, ctx, ta, label="save_preempted")
        else:
            ta = seams.SimStringIO(ctx=ctx)
            pre = seams.Preemptor(prefixes, {at: cb} if where == "line" else {},
                                  site_points={at: cb} if where == "site" else None)
            pre.once = True
            ea = pre.run(lambda: self._save(a, ctx, ta, label="save_preempted"))
        if not state.get("ran"):
            ctx.probe("preemption_point_not_reached")
            return
        ctx.fault_fired(kind)
        ctx.probe("two_saves_interleaved")
        desc = f"{where} {at}/{total} = {state['at']}"
        hint = {"il_where": where, "il_at": at}
        n0 = len(ctx.violations)
        for who, e in (("pre-empted", ea), ("pre-empting", state.get("exc"))):
            if e is not None:
                ctx.violate("save_raised", f"[interleaved{tag} at {desc}] the {who} caller's save_xye raised {e}",
                            kind="interleaved_save_raised", exc=e.name, _hint=hint)
                return
        self._load_and_compare(a, ctx, ta, f"interleaved{tag}, pre-empted caller ({desc})")
        self._load_and_compare(b, ctx, tb, f"interleaved{tag}, pre-empting caller ({desc})")
        for v in ctx.violations[n0:]:
            v.setdefault("hint", {}).update(hint)

    def _interrupted(self, scn, ctx):
        """The caller is interrupted (Ctrl-C, cancelled task) at a scheduling point of save_xye (a
        line of xye.py or inside a write()); then the same data is saved again to the same
        (emptied) target and loaded: the table must be complete and exact."""
        import scippneutron.io.xye as xye

        it = scn["interrupt"]
        a = dict(scn, sink="mem")
        prefixes = (xye.__file__,)
        counter = seams.Preemptor(prefixes, {})
        csink = seams.SimStringIO(ctx=ctx)
        if counter.run(lambda: self._save(a, ctx, csink, label="save_counting_pass")) is not None:
            return
        totals = {"line": counter.ordinal, "write": csink.sim_writes}
        if it.get("sweep"):
            pts = [("line", k) for k in range(totals["line"])] + [("write", k) for k in range(totals["write"])]
            ctx.count("interruption_points_enumerated", len(pts))
        else:
            where = it.get("where", "write")
            total = totals[where]
            pts = [(where, min(total - 1, int(it["frac"] * total)) if total else 0)]
        for where, at in pts:
            kind = {"line": "interrupt_at_line", "write": "interrupt_in_write"}[where]
            ctx.fault_configured(kind)
            try:
                if where == "write":
                    t = seams.SimStringIO(ctx=ctx, yield_at={at: seams.interrupt_now})
                    self._save(a, ctx, t, label="save_interrupted")
                else:
                    t = seams.SimStringIO(ctx=ctx)
                    seams.Preemptor(prefixes, {at: seams.interrupt_now}).run(
                        lambda: self._save(a, ctx, t, label="save_interrupted"))
                ctx.probe("interruption_point_not_reached")
                continue
            except seams.SimInterrupt:
                pass
            ctx.fault_fired(kind)
            t.seek(0)
            t.truncate(0)
            e2 = self._save(a, ctx, t, label="save_again_after_interrupt")
            if e2 is not None:
                ctx.violate("save_raised", f"after an interruption at {where} {at}/{totals[where]} saving again "
                            f"raised {e2}", kind="save_after_interrupt_raised", exc=e2.name)
                return
            self._load_and_compare(a, ctx, t, f"saved again after an interruption at {where} {at}/{totals[where]}")
            if ctx.violations:
                return

    def _interrupted_path(self, scn, ctx):
        """A save to a real path is interrupted at a line of xye.py and the caller KEEPS the
        exception for a while (an interactive session keeps the last traceback, a handler stores
        it): frames and whatever they hold stay alive.  Meanwhile another table is saved to the
        same path in the ordinary way; then the exception is released; then the file is loaded:
        it must be the table saved last."""
        import gc

        import scippneutron.io.xye as xye

        it = scn["interrupt"]
        prefixes = (xye.__file__,)
        b = dict(self._twin(scn, __import__("random").Random(scn.get("seed", 0) or 1)))
        b.update(sink=scn["sink"], fname=scn["fname"], faults={"mode": "none"})
        counter = seams.Preemptor(prefixes, {})
        if counter.run(lambda: self._save(scn, ctx, self._target(scn, ctx), label="save_counting_pass")) is not None:
            return
        total = counter.ordinal
        pts = range(total) if it.get("sweep") else [min(total - 1, int(it.get("frac", 0.5) * total)) if total else 0]
        for at in pts:
            held = None
            ctx.fault_configured("interrupt_at_line(path)")
            try:
                seams.Preemptor(prefixes, {at: seams.interrupt_now}).run(
                    lambda: self._save(scn, ctx, self._target(scn, ctx), label="save_interrupted"))
                ctx.probe("interruption_point_not_reached")
                continue
            except seams.SimInterrupt as e:
                held = e  # traceback -> frames -> locals stay alive
            ctx.fault_fired("interrupt_at_line(path)")
            e2 = self._save(b, ctx, self._target(b, ctx), label="save_other_table_same_path")
            held = None
            gc.collect()
            ctx.probe("exception_of_interrupted_save_held_across_the_next_save")
            if e2 is not None:
                ctx.violate("save_raised", f"after an interrupted save (exception still held) an ordinary save to "
                            f"the same path raised {e2}", kind="save_after_interrupt_raised", exc=e2.name)
                return
            self._load_and_compare(b, ctx, self._target(b, ctx), f"path after an interrupted save at line event {at}/{total} "
                                   "whose exception was held across the next save")
            if ctx.violations:
                return

    def _interleaved(self, scn, ctx):
        import scippneutron.io.xye as xye

        il = scn["interleave"]
        a = dict(scn, sink="mem")
        b = dict(il["other"], sink="mem")
        prefixes = (xye.__file__,)
        counter = seams.Preemptor(prefixes, {})
        csink = seams.SimStringIO(ctx=ctx)
        if counter.run(lambda: self._save(a, ctx, csink, label="save_counting_pass")) is not None:
            return
        totals = {"line": counter.ordinal, "site": len(counter.site_order), "write": csink.sim_writes}
        if il.get("sweep"):
            pts = [("site", k) for k in range(totals["site"])] + [("write", k) for k in range(totals["write"])]
            for where, at in pts:
                self._interleave_once(a, b, ctx, where, at, totals, prefixes, " sweep")
            ctx.count("interleaving_points_enumerated", len(pts))
            return
        where = il.get("where", "line")
        total = totals[where]
        at = il["at"] if "at" in il else (min(total - 1, int(il["frac"] * total)) if total else 0)
        self._interleave_once(a, b, ctx, where, at, totals, prefixes)

    def _unencodable_here(self, scn, ctx, exc, locale=None) -> bool:
        """In a process whose default text encoding is ASCII (scenario knob locale=C) a file
        opened by path cannot take non-ASCII header text (a user header, or the generated one
        with units such as the micro sign or a non-ASCII coordinate name): the loud
        UnicodeEncodeError is the environment's answer, not a statement about the table, and
        the property does not quantify over process locales.  Anything else still counts."""
        if (locale or scn.get("locale")) != "C" or scn["sink"] == "mem" or exc.name != "UnicodeEncodeError":
            return False
        import scipp as sc

        if scn["header"] == "$default":
            sel = self._selected(scn)
            text = f"{sel} {sc.Unit(scn['coords'][sel]['unit']) if scn['coords'][sel]['unit'] else ''} " \
                   f"{sc.Unit(scn['unit']) if scn['unit'] else ''}"
        else:
            text = scn["header"]
        if text.isascii():
            return False
        ctx.probe("locale_C_nonascii_header_refused_loudly")
        return True

    def _second_write(self, scn, ctx, target):
        """Same target, other data: what is loaded afterwards must be the new table."""
        s2 = scn["second"]
        if scn["sink"] == "mem":
            target.seek(0)
            target.truncate(0)
        else:
            target = self._target(s2, ctx)
        exc = self._save(s2, ctx, target, label="save_second_dataset_same_target")
        ctx.probe("target_rewritten_with_other_data")
        if exc is not None:
            if self._unencodable_here(s2, ctx, exc, locale=scn.get("locale")):
                return
            ctx.violate("save_raised", f"second save_xye to the same target raised {exc}", kind="save_raised",
                        exc=exc.name)
            return
        self._load_and_compare(s2, ctx, target, "second dataset, same target")

    def _write_fault(self, scn, ctx, k, partial, retry):
        sink = seams.SimStringIO(ctx=ctx, fail_at=k, partial=partial, err=scn["faults"].get("err", "ENOSPC"))
        ctx.fault_configured("enospc_at_write_ordinal")
        exc = self._save(scn, ctx, sink, label=f"save_fault_k{k}")
        if not sink.sim_fired:
            return
        ctx.fault_fired("enospc_at_write_ordinal")
        ctx.site("wfault@" + ("first" if k == 0 else "later"))
        if exc is None:
            ctx.violate("ack_after_failed_write",
                        f"save_xye returned normally although write #{k} and all later writes "
                        "failed with ENOSPC", kind="ack_after_failed_write", _hint={"write_k": k})
        if retry:
            s2 = seams.SimStringIO(ctx=ctx)
            exc2 = self._save(scn, ctx, s2, label="retry_after_fault")
            ctx.count("retries_after_fault")
            if exc2 is not None:
                ctx.violate("retry_failed", f"after the fault cleared save_xye raised {exc2}",
                            kind="retry_failed")
            else:
                self._load_and_compare(dict(scn, sink="mem"), ctx, s2, "retry")

    def _refusal(self, scn, ctx):
        target = self._target(scn, ctx)
        exc = self._save(scn, ctx, target)
        ctx.probe("refusal_" + scn["refusal"])
        written = (target.sim_writes > 0) if scn["sink"] == "mem" else (
            os.path.exists(scn["fname"]) and os.path.getsize(scn["fname"]) > 0)
        if exc is None:
            ctx.violate("not_refused", f"save_xye accepted unrepresentable data ({scn['refusal']}) and "
                        f"returned normally", kind="not_refused", case=scn["refusal"])
        elif written:
            ctx.violate("refused_but_written", f"save_xye raised {exc.name} for {scn['refusal']} but "
                        "had already written to the target", kind="refused_but_written",
                        case=scn["refusal"])
        else:
            ctx.count("refusals_checked")

    # -------------------------------------------------------------- reporting
    def nontrivial(self, scn, res):
        c = res["counters"]
        fired = sum(v[1] for v in res["faults"].values())
        return bool((c.get("rows_compared", 0) >= 2) or c.get("refusals_checked") or fired)

    def describe(self, scn):
        s = copy.deepcopy(scn)
        for k in ("values", "variances"):
            if isinstance(s[k], list) and len(s[k]) > 6:
                s[k] = s[k][:6] + ["..."]
        for c in s["coords"].values():
            if isinstance(c["vals"], list) and len(c["vals"]) > 6:
                c["vals"] = c["vals"][:6] + ["..."]
        return s

    def shrink(self, scn, violation=None):
        s = scn
        hint = (violation or {}).get("hint") or {}
        if "write_k" in hint and s["faults"]["mode"] == "enum_writes":
            c = copy.deepcopy(s)
            c["faults"] = {"mode": "write_k", "err": s["faults"].get("err", "ENOSPC"), "k": hint["write_k"]}
            yield c
        if "fsize_k" in hint and s["faults"]["mode"] == "fsize":
            c = copy.deepcopy(s)
            c["faults"] = {"mode": "fsize_k", "k": hint["fsize_k"]}
            yield c
        if s["faults"]["mode"] != "none":
            c = copy.deepcopy(s)
            c["faults"] = {"mode": "none"}
            yield c
        if s.get("second"):
            c = copy.deepcopy(s)
            del c["second"]
            yield c
            sec = s["second"]
            for cand in self.shrink(sec):
                c = copy.deepcopy(s)
                for k in ("sink", "fname"):
                    cand[k] = s[k]
                c["second"] = cand
                yield c
        if s.get("fresh_process"):
            c = copy.deepcopy(s)
            c["fresh_process"] = False
            yield c
        if s.get("interleave") and "il_where" in hint and (
                s["interleave"].get("sweep") or s["interleave"].get("at") != hint["il_at"]):
            c = copy.deepcopy(s)
            c["interleave"] = {"where": hint["il_where"], "at": hint["il_at"], "other": s["interleave"]["other"]}
            yield c
        if s.get("interleave"):
            c = copy.deepcopy(s)
            del c["interleave"]
            yield c
        if s.get("interrupt"):
            c = copy.deepcopy(s)
            del c["interrupt"]
            yield c
        if s.get("layout", "plain") != "plain":
            c = copy.deepcopy(s)
            c["layout"] = "plain"
            yield c
        if s.get("locale"):
            c = copy.deepcopy(s)
            del c["locale"]
            yield c
        if s["sink"] != "mem" and s["faults"]["mode"] == "none":
            c = copy.deepcopy(s)
            c["sink"] = "mem"
            yield c
        if s["header"] not in ("$default",):
            for h in ("$default", "", s["header"][: len(s["header"]) // 2], s["header"][len(s["header"]) // 2:],
                      s["header"][1:], s["header"][:-1]):
                if h != s["header"]:
                    c = copy.deepcopy(s)
                    c["header"] = h
                    yield c
        # rows
        n = s["n"]
        if n > 1 and isinstance(s["values"], list):
            for lo, hi in ((0, n // 2), (n // 2, n), (0, 1), (n - 1, n)):
                keep = [i for i in range(n) if not lo <= i < hi]
                if not keep:
                    continue
                c = copy.deepcopy(s)
                c["n"] = len(keep)
                c["values"] = [s["values"][i] for i in keep]
                c["variances"] = [s["variances"][i] for i in keep]
                for nm in c["coords"]:
                    c["coords"][nm]["vals"] = [s["coords"][nm]["vals"][i] for i in keep]
                yield c
        elif n > 1:
            for n2 in (1, 2, n // 2):
                if n2 < n:
                    c = copy.deepcopy(s)
                    c["n"] = n2
                    yield c
        # coordinates
        sel = self._selected(s)
        for nm in list(s["coords"]):
            if nm != sel and len(s["coords"]) > 1:
                c = copy.deepcopy(s)
                del c["coords"][nm]
                yield c
        if isinstance(s["values"], list):
            for key in ("values", "variances"):
                if any(x != 1.0 for x in s[key]):
                    c = copy.deepcopy(s)
                    c[key] = [1.0] * n
                    yield c
            if sel and any(x != 1.0 for x in s["coords"][sel]["vals"]):
                c = copy.deepcopy(s)
                c["coords"][sel]["vals"] = [float(i) for i in range(n)]
                yield c
        if s["unit"] is not None:
            c = copy.deepcopy(s)
            c["unit"] = None
            yield c
        if s.get("load_coord"):
            c = copy.deepcopy(s)
            c["load_coord"] = None
            yield c


def make_engine(prop):
    return XyeEngine()
