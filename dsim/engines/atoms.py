"""C20 — bundled nuclear data under histories of lookups, cache pressure,
pre-emption inside the table scan and injected open/readline failures.
"""

from __future__ import annotations

import copy
import os

from .. import core, seams
from ..ref_atoms import SP_FIELDS, Tables
from . import Engine

_SRC = None
_T: Tables | None = None
_PROXY: seams.BundledFileProxy | None = None

WL_UNITS = ["angstrom", "nm", "m", "pm", "um", "mm"]
N_UNITS = ["1/angstrom**3", "1/nm**3", "1/m**3", "1/cm**3", "1/mm**3"]
ERRS = ["EMFILE", "EIO", "ENOENT", "EACCES"]


def _tables() -> Tables:
    global _T, _SRC
    if _T is None:
        _SRC = os.path.abspath(os.environ.get("DSIM_SRC_EFFECTIVE") or "/repo/src")
        _T = Tables(_SRC)
    return _T


class AtomsEngine(Engine):
    prop = "C20"
    level = "exploration"
    title = "Bundled nuclear data are returned verbatim; attenuation follows the 1/v law"
    rule = (
        "A case is one seeded history: 1-3 simulated callers issuing Atom / ScatteringParams "
        "lookups, attenuation computations, cache-pressure bursts (>128 distinct names), "
        "near-miss names, with seeded pre-emption points inside the table scan (a second "
        "caller's lookup runs between two Python lines of the first) and seeded OSError "
        "faults at open / n-th readline followed by a retry; 'sweep' cases enumerate a slice "
        "of all 4046 table rows twice (miss, then post-eviction). Distinct = distinct "
        "scenario digest; non-trivial = the history contains at least one valid lookup that "
        "was compared field by field with the reference table AND at least one of: a fault "
        "that fired, a pre-emption that was taken, a rejected near-miss, an observed eviction."
    )
    assumptions = [
        "reference = the three CSV files of the tree under test parsed with Python's csv module; "
        "float(str) on both sides, compared exactly",
        "only OSError at open/readline is injected (no content corruption: the tables carry no "
        "integrity data and the property promises none)",
        "any exception counts as 'rejected'",
        "attenuation compared to a plain-float evaluation of n*(s_tot + s_abs*lambda/1.7982A) at "
        "relative 1e-12 (the statement gives no precision); variances ignored",
        "scipp pinned to one thread; interleavings inside scipp kernels are not explored",
    ]
    components_real = [
        "scippneutron.atoms (lookups, lru_caches, CSV scan)",
        "scippneutron.absorption.material.Material",
        "the packaged CSV files", "scipp", "importlib.resources",
    ]
    components_stubbed = [
        "table opener wrapped by BundledFileProxy (delegates to the real opener; injects OSError)",
        "second/third caller = operations run inline at scheduled line ordinals (sys.settrace)",
    ]

    def budget(self, tier):
        return 2200 if tier == "quick" else 60000

    def timeout(self, tier):
        return 600

    # ------------------------------------------------------------------ setup
    def setup(self):
        global _PROXY
        import scippneutron.atoms as atoms

        src = os.path.dirname(os.path.dirname(os.path.dirname(os.path.abspath(atoms.__file__))))
        os.environ["DSIM_SRC_EFFECTIVE"] = src
        _tables()
        _PROXY = seams.BundledFileProxy(atoms._open_bundled_parameters_file)
        atoms._open_bundled_parameters_file = _PROXY
        self._trace_prefix = (os.path.dirname(os.path.abspath(atoms.__file__)) + os.sep,)

    # --------------------------------------------------------------- generate
    def _near_miss(self, rng, name: str) -> str:
        t = _tables()
        k = rng.randrange(21)
        if k == 16:
            return name + rng.choice(["\u200b", "\u00a0", "\x00", "\u0301"])
        if k == 17:
            return "".join({"0": "\uff10", "1": "\uff11", "2": "\uff12", "3": "\u0663"}.get(ch, ch) for ch in name) + (
                "" if any(ch in "0123" for ch in name) else "\uff11")
        if k == 18:
            return name * rng.choice([50, 1000])
        if k == 19:
            return name.replace("H", "\u041d").replace("C", "\u0421") if any(c in name for c in "HC") else name + "\u00e9"
        if k == 20:
            return rng.choice(["+", "-", "0x"]) + name
        if k == 0:
            return name.lower() if name.lower() != name else name.upper()
        if k == 1:
            return name.upper() if name.upper() != name else name + "x"
        if k == 2:
            return " " + name
        if k == 3:
            return name + " "
        if k == 4:
            return name + "\n"
        if k == 5:
            return name + "\t"
        if k == 6:
            return name[:-1]  # prefix (may be valid: the reference decides)
        if k == 7:
            return name[1:]  # suffix
        if k == 8:
            if rng.random() < 0.4:
                # punctuation that means something to a pattern matcher / a CSV reader
                suffix = rng.choice([".", "?", "*", "+", "{1}", "|", ".*", "$", "\\d", "(", "[", ";", "\"", "'"])
                return name + suffix if rng.random() < 0.7 else name[:-1] + suffix
            return name + rng.choice("abcdefgHX0123456789,")
        if k == 9:
            digits = "".join(ch for ch in name if ch.isdigit())
            letters = "".join(ch for ch in name if not ch.isdigit())
            if len(digits) >= 2:
                d = list(digits)
                i = rng.randrange(len(d) - 1)
                d[i], d[i + 1] = d[i + 1], d[i]
                return "".join(d) + letters
            return letters + digits
        if k == 10:
            # element of one table with mass number of another
            other = rng.choice(t.m_order)
            digits = "".join(ch for ch in other if ch.isdigit())
            letters = "".join(ch for ch in name if not ch.isdigit())
            return digits + letters
        if k == 11:
            return rng.choice(["Element", "Isotope", "", "#", "# Numbers extracted using tools/atomic_weights.ipynb from https://www.ciaaw.org/abridged-atomic-weights.htm", "Z", "0", "n", "1n", "D", "T"])
        if k == 12:
            return name + ",1"
        if k == 13:
            return "0" + name
        if k == 14:
            return name + name
        return name.swapcase()

    def _lookup_op(self, rng, c: int, allow_invalid=True) -> dict:
        t = _tables()
        r = rng.random()
        if r < 0.45:
            what, name = "sp", rng.choice(t.sp_order)
        elif r < 0.65:
            what, name = "atom", rng.choice(t.w_order)
        else:
            what, name = "atom", rng.choice(t.m_order)
        if rng.random() < 0.2:  # cross: ask one API for a name of another table
            what = "sp" if what == "atom" else "atom"
        if allow_invalid and rng.random() < 0.3:
            name = self._near_miss(rng, name)
        return {"c": c, "op": what, "name": name, **({"kw": True} if rng.random() < 0.2 else {})}

    def _fault(self, rng, op: dict) -> dict:
        at = rng.choice(["open", "readline", "readline"])
        f = {"at": at, "errno": rng.choice(ERRS), "open_ordinal": 0}
        if op["op"] == "atom":
            f["open_ordinal"] = rng.choice([0, 0, 1])
        if at == "readline":
            # before / at / after typical matching rows: small ordinals are header lines
            f["line"] = rng.choice([0, 1, 2, 3, rng.randrange(0, 40), rng.randrange(0, 400),
                                    rng.randrange(0, 3600)])
        return f

    def generate(self, rng, tier, i):
        t = _tables()
        n_sweep = 16 if tier == "quick" else 64
        if i < n_sweep:
            names = t.all_names()
            per = (len(names) + 15) // 16
            sl = i % 16
            return {
                "kind": "sweep",
                "slice": [sl * per, min(len(names), (sl + 1) * per)],
                "order_seed": core.sub_seed(i // 16, "order"),
                "callers": 1,
                "ops": [],
                **({"locale": "C"} if (i // 16) % 4 == 3 else {}),
            }
        n_int = 32
        if n_sweep <= i < n_sweep + n_int:
            # interruption sweep over FIRST lookups: state that a lookup builds up is only written
            # once per element and process, so every element is looked up exactly once per run and
            # interrupted at a line boundary drawn for (run, element); the same lookup is then made
            # again (judged).  Over the sweep runs this samples about a fifth of all (element, line
            # boundary) pairs, i.e. every kind of boundary many times.
            import random

            r = random.Random(9000 + i)
            ops = []
            for row, name in enumerate(t.w_order):
                ops.append({"c": 0, "op": "atom", "name": name, "interrupt": r.randrange(3 * (row + 1) + 45)})
            return {"kind": "history", "callers": 1, "ops": ops}
        callers = rng.choice([1, 1, 2, 2, 3])
        ops = []
        n_ops = rng.randrange(2, 13)
        hot: list[dict] = []  # names that callers keep coming back to
        for _ in range(n_ops):
            c = rng.randrange(callers)
            r = rng.random()
            if hot and r < 0.3:
                op = dict(rng.choice(hot))
                op["c"] = c
            elif r < 0.42:
                what = rng.choice(["sp", "atom_w", "atom_m"])
                op = {"c": c, "op": "burst", "what": what,
                      "start": rng.randrange(4000),
                      "count": rng.choice([3, 20, 127, 128, 129, 130, 200]),
                      "stride": rng.choice([1, 1, 7, 13])}
            elif r < 0.55:
                name = rng.choice([n for n in t.sp_order[:200]])
                wl_u = rng.choice(WL_UNITS)
                if rng.random() < 0.5:
                    wl = [rng.uniform(0.05, 30.0), wl_u]
                else:
                    wl = [[rng.uniform(0.05, 30.0) for _ in range(rng.randrange(1, 5))], wl_u]
                wdt = rng.choice(["float64", "float64", "float32", "int64", "int32"])
                op = {"c": c, "op": "atten", "name": name, "reuse": rng.random() < 0.5, "wl_dtype": wdt,
                      "again": rng.choice([None, None, "wavelength", "wavelength_unit", "density"]),
                      "n": [rng.choice([1.0, 0.5, rng.uniform(1e-3, 10.0), rng.uniform(1e20, 1e30)]),
                            rng.choice(N_UNITS)],
                      "wl": wl}
                if rng.random() < 0.2:
                    # integer number density (the user guide itself writes sc.scalar(1, unit='1/angstrom**3'))
                    op["n"] = [float(rng.choice([1, 2, 72, 600, 1500, rng.randrange(1, 5000)])), rng.choice(N_UNITS)]
                    op["n_dtype"] = "int64"
                if wdt.startswith("int"):
                    # integer wavelengths (e.g. sc.arange) in a unit where they are >= 1
                    op["wl"] = ([float(rng.randrange(1, 30)) for _ in wl[0]] if isinstance(wl[0], list)
                                else float(rng.randrange(1, 30)), rng.choice(["angstrom", "nm", "pm"]))
                    op["wl"] = list(op["wl"])
            elif r < 0.58:
                op = {"c": c, "op": "refwl"}
            else:
                op = self._lookup_op(rng, c)
                hot.append({k: op[k] for k in ("op", "name")})
            if op["op"] in ("sp", "atom") and rng.random() < 0.3:
                op["fault"] = self._fault(rng, op)
            elif op["op"] in ("sp", "atom") and rng.random() < 0.15:
                op["interrupt"] = int(10 ** rng.uniform(0, 4.1)) - 1
            if op["op"] in ("sp", "atom", "atten") and callers > 1 and rng.random() < 0.35:
                pts = []
                for _ in range(rng.randrange(1, 4)):
                    at = int(10 ** rng.uniform(0, 4.1)) - 1
                    nested = self._lookup_op(rng, (c + 1 + rng.randrange(callers - 1)) % callers)
                    if hot and rng.random() < 0.5:
                        nested.update(rng.choice(hot))
                    pts.append({"at": at, "op": nested})
                op["preempt"] = pts
            ops.append(op)
        scn = {"kind": "history", "callers": callers, "ops": ops}
        if rng.random() < 0.15:
            # legacy-locale deployment: open() without encoding= is strict ASCII (core.apply_process_env)
            scn["locale"] = "C"
        if rng.random() < 0.12:
            scn["logging"] = rng.choice(["INFO", "DEBUG"])  # the application has logging switched on
        return scn

    # ---------------------------------------------------------------- execute
    def execute(self, scenario, ctx, scratch):
        import random

        t = _tables()
        _PROXY.ctx = ctx
        _PROXY.reset()
        self._materials = {}
        ops = scenario["ops"]
        if scenario["kind"] == "sweep":
            names = t.all_names()[scenario["slice"][0]: scenario["slice"][1]]
            r = random.Random(scenario["order_seed"])
            r.shuffle(names)
            second = list(names)
            r.shuffle(second)
            ops = [{"c": 0, "op": "sp" if w == "sp" else "atom", "name": n}
                   for (w, n) in names + second]
            ctx.count("sweep_rows", len(names))
        for op in ops:
            ctx.caller = f"c{op.get('c', 0)}"
            self._do_op(ctx, op, top=True)
        ctx.caller = "-"
        ctx.log("handles", _PROXY.opens, _PROXY.closes)
        if _PROXY.opens != _PROXY.closes:
            ctx.probe("table_handle_imbalance")
        ctx.count("table_opens", _PROXY.opens)
        ctx.count("table_lines_read", _PROXY.lines)

    def _do_op(self, ctx, op, top):
        kind = op["op"]
        ctx.step(f"{ctx.caller}:{kind}" + ("+F" if op.get("fault") else "") +
                 ("+P" if op.get("preempt") else ""))
        if kind == "clear_cache":
            # the caller empties the lookup caches (lru_cache.cache_clear is public API): the next
            # lookup scans the tables again, like the first lookup of a fresh process
            import scippneutron.atoms as atoms

            for f in (atoms.Atom.for_isotope, atoms.ScatteringParams.for_isotope):
                cc = getattr(f, "cache_clear", None)
                if cc:
                    cc()
            return
        if kind == "burst":
            t = _tables()
            order = {"sp": t.sp_order, "atom_w": t.w_order, "atom_m": t.m_order}[op["what"]]
            for j in range(op["count"]):
                name = order[(op["start"] + j * op["stride"]) % len(order)]
                self._lookup(ctx, "sp" if op["what"] == "sp" else "atom", name, None, None)
            ctx.count("burst_lookups", op["count"])
            if op["count"] > 128:
                ctx.probe("burst_exceeds_cache_capacity")
            return
        if kind == "refwl":
            import scippneutron.atoms as atoms

            v = atoms.reference_wavelength()
            ok = (v.ndim == 0 and v.value == 1.7982 and str(v.unit) == "Å" and v.variance is None)
            ctx.log("refwl", core.fbits(v.value), str(v.unit))
            if not ok:
                ctx.violate("refwl", f"reference_wavelength() = {v.value!r} {v.unit}", kind="refwl")
            return
        if kind == "atten":
            self._atten(ctx, op)
            return
        self._kw = bool(op.get("kw"))
        if top and op.get("interrupt") is not None:
            # the caller is interrupted (Ctrl-C, cancelled task) in the middle of this lookup and
            # then simply asks again: the second answer is judged like any other
            ctx.fault_configured("interrupt_in_lookup")
            pre = seams.Preemptor(self._trace_prefix, {op["interrupt"]: seams.interrupt_now})
            try:
                pre.run(lambda: self._call(kind, op["name"]))
                ctx.probe("interruption_point_not_reached")
            except seams.SimInterrupt:
                ctx.fault_fired("interrupt_in_lookup")
                ctx.log("interrupted", kind, op["name"], op["interrupt"])
            except Exception:  # noqa: BLE001  (invalid names raise before the point is reached)
                pass
        self._lookup(ctx, kind, op["name"], op.get("fault") if top else None,
                     op.get("preempt") if top else None)

    # -- lookups -----------------------------------------------------------------
    def _call(self, kind, name):
        import scippneutron.atoms as atoms

        f = atoms.ScatteringParams.for_isotope if kind == "sp" else atoms.Atom.for_isotope
        # keyword and positional calls are different keys of an lru_cache
        return f(isotope=name) if getattr(self, "_kw", False) else f(name)

    def _cache_info(self, kind):
        import scippneutron.atoms as atoms

        f = atoms.ScatteringParams.for_isotope if kind == "sp" else atoms.Atom.for_isotope
        ci = getattr(f, "cache_info", None)
        return ci() if ci else None

    def _lookup(self, ctx, kind, name, fault, preempt):
        ci0 = self._cache_info(kind)
        if fault:
            plan = dict(fault)
            plan["errno"] = seams.ERRNOS[fault["errno"]]
            ctx.fault_configured(f"oserror_{fault['at']}")
            _PROXY.arm(plan)
        taken = 0
        try:
            if preempt:
                points = {}
                for p in preempt:
                    points.setdefault(p["at"], p["op"])
                ctx.fault_configured("preempt_in_scan", len(points))

                def mk(nop):
                    def cb(frame):
                        saved = ctx.caller
                        ctx.caller = f"c{nop.get('c', 0)}"
                        ctx.log("preempt", frame.f_code.co_name)
                        plan_saved = _PROXY.plan
                        _PROXY.plan = None  # the injected fault belongs to the outer op
                        k_saved = _PROXY.op_opens
                        try:
                            self._lookup(ctx, nop["op"], nop["name"], None, None)
                        finally:
                            _PROXY.plan = plan_saved
                            _PROXY.op_opens = k_saved
                            ctx.caller = saved
                    return cb

                pre = seams.Preemptor(self._trace_prefix, {k: mk(v) for k, v in points.items()})
                try:
                    obj, exc = pre.run(lambda: self._call(kind, name)), None
                finally:
                    taken = len(pre.taken)
                    ctx.fault_fired("preempt_in_scan", taken)
                    for s in pre.sites:
                        ctx.site("preempt@" + s)
                    ctx.count("line_events", pre.ordinal)
            else:
                obj, exc = self._call(kind, name), None
        except Exception as e:  # noqa: BLE001
            obj, exc = None, e
        finally:
            fired = _PROXY.fired if fault else 0
            if fault:
                # only the op that armed the plan disarms it: a nested (pre-empting) lookup may
                # run while the outer op is still unwinding from its injected fault (the
                # with-statement cleanup is a line event, i.e. a legal pre-emption point)
                _PROXY.arm(None)
        ci1 = self._cache_info(kind)
        if ci0 and ci1:
            if ci1.misses > ci0.misses:
                ctx.count("cache_miss")
            if ci1.hits > ci0.hits:
                ctx.count("cache_hit")
            if ci0.currsize == ci0.maxsize and ci1.misses > ci0.misses:
                ctx.probe("eviction_observed")
        if fault and fired:
            ctx.fault_fired(f"oserror_{fault['at']}")
            ctx.site(f"fault@{kind}:{fault['at']}:open{fault.get('open_ordinal', 0)}")
            ctx.log("lookup_under_fault", kind, name, type(exc).__name__ if exc else "returned")
            if exc is None:
                ctx.violate(
                    "fault_swallowed",
                    f"{kind}.for_isotope({name!r}) returned {obj!r} although reading the table "
                    f"failed with injected {fault['errno']} at {fault['at']}",
                    kind="fault_swallowed", api=kind,
                )
            # fault cleared: the same lookup must now give the exact row (one retry)
            self._lookup(ctx, kind, name, None, None)
            ctx.count("retries_after_fault")
            return
        self._judge(ctx, kind, name, obj, exc)

    def _judge(self, ctx, kind, name, obj, exc):
        t = _tables()
        if kind == "sp":
            exp = t.expect_sp(name)
        else:
            exp = t.expect_atom(name)
        if exp is None:
            ctx.count("invalid_lookups")
            ctx.log("lookup", kind, name, "rejected" if exc else "ANSWERED")
            if exc is None:
                ctx.violate(
                    "not_rejected",
                    f"{kind}.for_isotope({name!r}) is not a row of the table but was answered "
                    f"with {obj!r}",
                    kind="not_rejected", api=kind,
                )
            else:
                ctx.probe("near_miss_rejected")
            return
        ctx.count("valid_lookups")
        if exc is not None:
            if isinstance(exc, seams.InjectedOSError):
                raise core.HarnessError("injected fault leaked into an un-faulted lookup")
            ctx.log("lookup", kind, name, "RAISED", type(exc).__name__)
            ctx.violate(
                "valid_rejected",
                f"{kind}.for_isotope({name!r}) raised {type(exc).__name__}: {exc} for a row of "
                "the table",
                kind="valid_rejected", api=kind,
            )
            return
        if kind == "sp":
            got = self._sp_fields(obj)
            ctx.log("lookup", "sp", name, core.h64(core.jdump(got)))
            if getattr(obj, "isotope", None) != name:
                ctx.violate("wrong_row", f"sp({name!r}).isotope == {obj.isotope!r}",
                            kind="wrong_name", api="sp")
            for (fname, _u), g, e in zip(SP_FIELDS, got, exp, strict=True):
                e_ = None if e is None else [core.fbits(e[0]),
                                             None if e[1] is None else core.fbits(e[1]), e[2]]
                if g != e_:
                    ctx.violate(
                        "wrong_value",
                        f"ScatteringParams.for_isotope({name!r}).{fname}: got {g} expected {e_} "
                        f"(table: {e})",
                        kind="wrong_value", api="sp", field=fname,
                    )
        else:
            got = self._atom_fields(obj)
            ctx.log("lookup", "atom", name, core.h64(core.jdump(got)))
            if getattr(obj, "isotope", None) != name:
                ctx.violate("wrong_row", f"Atom({name!r}).isotope == {obj.isotope!r}",
                            kind="wrong_name", api="atom")
            e_z = exp["z"]
            if got["z"] != e_z:
                ctx.violate("wrong_value", f"Atom.for_isotope({name!r}).z = {got['z']} expected {e_z}",
                            kind="wrong_value", api="atom", field="z")
            for fld in ("weight", "mass"):
                e = exp[fld]
                e_ = "ValueError" if e is None else [core.fbits(e[0]),
                                                     None if e[1] is None else core.fbits(e[1]), e[2]]
                if got[fld] != e_:
                    ctx.violate(
                        "wrong_value",
                        f"Atom.for_isotope({name!r}).atomic_{fld}: got {got[fld]} expected {e_} "
                        f"(table: {e})",
                        kind="wrong_value", api="atom", field=fld,
                    )

    @staticmethod
    def _var(v):
        if v is None:
            return None
        import scipp as sc

        if not isinstance(v, sc.Variable) or v.ndim != 0:
            return ["not-a-scalar-variable", repr(v)[:80]]
        var = v.variance
        unit = str(v.unit)
        for u in ("fm", "barn", "Da"):
            if v.unit == sc.Unit(u):
                unit = u
        return [core.fbits(float(v.value)), None if var is None else core.fbits(float(var)), unit]

    def _sp_fields(self, obj):
        return [self._var(getattr(obj, f)) for f, _ in SP_FIELDS]

    def _atom_fields(self, obj):
        out = {"z": obj.z}
        for fld in ("weight", "mass"):
            try:
                out[fld] = self._var(getattr(obj, "atomic_" + fld))
            except ValueError:
                out[fld] = "ValueError"
        return out

    # -- attenuation ---------------------------------------------------------------
    def _atten(self, ctx, op):
        import numpy as np
        import scipp as sc
        import scippneutron.atoms as atoms
        from scippneutron.absorption.material import Material

        t = _tables()
        name = op["name"]
        row = t.expect_sp(name)
        if row is None or row[6] is None or row[7] is None:
            ctx.count("atten_skipped_blank")
            return
        try:
            sp = atoms.ScatteringParams.for_isotope(name)
            if op.get("n_dtype") == "int64":
                n = sc.scalar(int(op["n"][0]), unit=op["n"][1], dtype="int64")
            else:
                n = sc.scalar(op["n"][0], unit=op["n"][1])
            wlv, wlu = op["wl"]
            wdt = op.get("wl_dtype", "float64")
            if isinstance(wlv, list):
                wl = sc.array(dims=["wavelength"], values=np.asarray(wlv).astype(wdt), unit=wlu)
                wlv = wl.values.astype(float).tolist()
            else:
                wl = sc.scalar(np.asarray(wlv).astype(wdt).item(), unit=wlu, dtype=wdt)
                wlv = float(wl.value)
            if op.get("reuse"):
                # one Material object per caller, re-used: its fields are reassigned (it is a
                # plain, non-frozen dataclass) before the next evaluation
                mats = self.__dict__.setdefault("_materials", {})
                m = mats.get(ctx.caller)
                if m is None:
                    m = mats[ctx.caller] = Material(sp, n)
                else:
                    m.scattering_params = sp
                    m.effective_sample_number_density = n
                    ctx.probe("material_object_reused")
                mu = m.attenuation_coefficient(wl)
            else:
                mu = Material(sp, n).attenuation_coefficient(wl)
            got = sc.to_unit(sc.values(mu), "1/m", copy=True)
        except Exception as e:  # noqa: BLE001
            if (isinstance(e, sc.VariancesError) and isinstance(op["wl"][0], list)
                    and (row[6][1] is not None or row[7][1] is not None)):
                # scipp refuses to broadcast a cross-section that carries a tabulated
                # uncertainty against a wavelength *array*; the statement speaks of
                # wavelengths "in any units", not of arrays -> reported, not judged
                ctx.probe("atten_array_wavelength_with_uncertain_cross_section_raises")
                ctx.log("atten", name, "VariancesError(array)")
                return
            ctx.log("atten", name, "RAISED", type(e).__name__)
            ctx.violate("atten_raised", f"attenuation_coefficient raised {type(e).__name__}: {e} "
                        f"for {op}", kind="atten_raised")
            return
        to_m = {"angstrom": 1e-10, "nm": 1e-9, "m": 1.0, "pm": 1e-12, "um": 1e-6, "mm": 1e-3}
        to_m3 = {"1/angstrom**3": 1e30, "1/nm**3": 1e27, "1/m**3": 1.0, "1/cm**3": 1e6,
                 "1/mm**3": 1e9}
        lam_A = np.atleast_1d(np.asarray(wlv, dtype=float)) * (to_m[wlu] / 1e-10)
        n_m3 = op["n"][0] * to_m3[op["n"][1]]
        exp = n_m3 * (row[6][0] + row[7][0] * lam_A / 1.7982) * 1e-28
        g = np.atleast_1d(got.values)
        ctx.log("atten", name, [core.fbits(x) for x in g.tolist()])
        ctx.count("atten_checked")
        rtol = 1e-6 if op.get("wl_dtype") == "float32" else 1e-12
        bad = (g.shape != exp.shape) or not np.all(np.abs(g - exp) <= rtol * np.abs(exp))
        if bad:
            ctx.violate("atten_value", f"attenuation_coefficient({op}) = {g.tolist()} 1/m, "
                        f"expected {exp.tolist()}", kind="atten_value")
            return
        again = op.get("again")
        if again and wdt == "float64":
            # the caller changes ITS OWN argument objects in place and evaluates again with the very
            # same objects: the result must be the formula at the values the objects hold NOW
            mat = m if op.get("reuse") else Material(sp, n)
            if not op.get("reuse"):
                mat.attenuation_coefficient(wl)
            if again == "wavelength":
                wl *= 2.0
                lam_A = lam_A * 2.0
            elif again == "wavelength_unit" and wlu == "angstrom":
                wl.unit = "nm"
                lam_A = lam_A * 10.0
            elif again == "density" and op.get("n_dtype") != "int64":
                mat.effective_sample_number_density *= 0.5
                n_m3 = n_m3 * 0.5
            else:
                return
            ctx.probe("caller_changed_own_argument_in_place_then_called_again")
            try:
                got2 = sc.to_unit(sc.values(mat.attenuation_coefficient(wl)), "1/m", copy=True)
            except Exception as e:  # noqa: BLE001
                ctx.violate("atten_raised", f"second attenuation_coefficient raised {type(e).__name__}: {e}",
                            kind="atten_raised")
                return
            exp2 = n_m3 * (row[6][0] + row[7][0] * lam_A / 1.7982) * 1e-28
            g2 = np.atleast_1d(got2.values)
            if g2.shape != exp2.shape or not np.all(np.abs(g2 - exp2) <= 1e-12 * np.abs(exp2)):
                ctx.violate("atten_value", f"after the caller changed its {again} in place, the same objects give "
                            f"{g2.tolist()} 1/m, expected {exp2.tolist()} ({op})", kind="atten_value:stale")

    # ------------------------------------------------------------- reporting
    def nontrivial(self, scenario, result):
        c, p, f = result["counters"], result["probes"], result["faults"]
        if c.get("valid_lookups", 0) == 0:
            return False
        fired = sum(v[1] for v in f.values())
        return bool(fired or p.get("near_miss_rejected") or p.get("eviction_observed")
                    or scenario["kind"] == "sweep")

    def describe(self, scenario):
        s = copy.deepcopy(scenario)
        if len(s.get("ops", [])) > 8:
            s["ops"] = s["ops"][:8] + [f"... {len(scenario['ops']) - 8} more"]
        return s

    # ---------------------------------------------------------------- shrink
    def shrink(self, scenario, violation=None):
        s = scenario
        if s["kind"] == "sweep":
            a, b = s["slice"]
            if b - a > 1:
                mid = (a + b) // 2
                for sl in ([a, mid], [mid, b]):
                    c = copy.deepcopy(s)
                    c["slice"] = sl
                    yield c
            return
        ops = s["ops"]
        n = len(ops)
        # drop halves, then single ops
        if n > 1:
            for lo, hi in ((0, n // 2), (n // 2, n)):
                c = copy.deepcopy(s)
                c["ops"] = ops[:lo] + ops[hi:]
                yield c
            for k in range(n):
                c = copy.deepcopy(s)
                del c["ops"][k]
                yield c
        for k, op in enumerate(ops):
            if "fault" in op:
                c = copy.deepcopy(s)
                del c["ops"][k]["fault"]
                yield c
            if "preempt" in op:
                c = copy.deepcopy(s)
                del c["ops"][k]["preempt"]
                yield c
                if len(op["preempt"]) > 1:
                    for j in range(len(op["preempt"])):
                        c = copy.deepcopy(s)
                        del c["ops"][k]["preempt"][j]
                        yield c
            if op["op"] == "burst" and op["count"] > 1:
                for cnt in (1, op["count"] // 2, op["count"] - 1):
                    if 0 < cnt < op["count"]:
                        c = copy.deepcopy(s)
                        c["ops"][k]["count"] = cnt
                        yield c
            if op.get("c", 0) != 0:
                c = copy.deepcopy(s)
                c["ops"][k]["c"] = 0
                yield c
            if op["op"] == "atten" and isinstance(op["wl"][0], list) and len(op["wl"][0]) > 1:
                c = copy.deepcopy(s)
                c["ops"][k]["wl"][0] = op["wl"][0][:1]
                yield c
        if s.get("callers", 1) > 1 and all(op.get("c", 0) == 0 and "preempt" not in op for op in ops):
            c = copy.deepcopy(s)
            c["callers"] = 1
            yield c


def make_engine(prop):
    return AtomsEngine()
