"""C17 — peak fitting with the optimiser behind a fault-injecting proxy.

fit_peaks is a loop over peaks x (peak model, background model) attempts around a
dependency that is allowed to fail (scipy's curve_fit raises RuntimeError when it does
not converge) with a recover-and-continue handler.  The simulator decides which
optimiser calls fail or return another legal optimum, enumerates every single-failure
plan for sampled inputs, and judges isolation, control flow, coherence of statistics,
requirements, window construction and peak removal.
"""

from __future__ import annotations

import copy
import math
import warnings

import numpy as np

from .. import core, ref_fit, seams
from . import Engine

PEAK_NAMES = ["gaussian", "lorentzian", "pseudo_voigt"]
BKG_NAMES = ["linear", "quadratic"]

_STATE = {"plan": None, "log": None, "real": None, "keymap": None, "ctx": None}


class OptimizerProxy:
    """Stands in for ``scipp.scipy.optimize.curve_fit`` inside scippneutron.peaks._fit_peaks."""

    def __call__(self, f, da, *, p0=None, bounds=None, **kw):
        st = _STATE
        x = da.coords[da.dim].values
        key = (len(x), core.fbits(float(x[0])) if len(x) else "", core.fbits(float(x[-1])) if len(x) else "")
        names = sorted(p0) if p0 else []
        is_full = any(n.startswith("peak_") for n in names)
        log = st["log"]
        ordinal = sum(1 for c in log if c["key"] == key)
        rec = {"key": key, "ordinal": ordinal, "full": is_full, "names": names, "outcome": None}
        log.append(rec)
        action = None
        peak_index = st["keymap"].get(key) if st["keymap"] else None
        for a in st["plan"] or ():
            if a.get("all") or (a.get("peak") == peak_index and peak_index is not None and (
                    a.get("ordinal") == ordinal or (a.get("every_full") and is_full))):
                action = a
                break
        if action is not None and action["action"] == "fail":
            rec["outcome"] = "injected_failure"
            if st["ctx"] is not None:
                st["ctx"].fault_fired("optimiser_runtime_error")
                st["ctx"].site(f"optfail@{'full' if is_full else 'bkg_only'}:ord{min(ordinal, 5)}")
            raise RuntimeError(
                "Optimal parameters not found: Number of calls to function has reached maxfev = 800."
            )
        nfev = [0]

        def counted(x_, **params):
            nfev[0] += 1
            return f(x_, **params)

        try:
            popt, pcov = st["real"](counted, da, p0=p0, bounds=bounds, **kw)
        except RuntimeError:
            rec["outcome"] = "real_failure"
            rec["nfev"] = nfev[0]
            raise
        rec["nfev"] = nfev[0]
        rec["outcome"] = "ok"
        if action is not None and action["action"] == "perturb" and is_full:
            popt = _perturb(popt, bounds, x, action["perturb"])
            rec["outcome"] = "perturbed"
            if st["ctx"] is not None:
                st["ctx"].fault_fired("optimiser_other_legal_optimum")
                st["ctx"].site("optperturb@full")
        rec["popt"] = {k: float(v.value) for k, v in popt.items()}
        return popt, pcov


def _perturb(popt, bounds, x, spec):
    """Move the returned optimum to another point inside the bounds (nothing promises
    which local optimum the optimiser returns)."""
    import scipp as sc

    out = dict(popt)
    span = float(x[-1] - x[0]) if len(x) > 1 else 1.0

    def setv(name, val):
        lo, hi = (bounds or {}).get(name, (-math.inf, math.inf))
        lo = lo.value if hasattr(lo, "value") else lo
        hi = hi.value if hasattr(hi, "value") else hi
        val = min(max(val, lo), hi)
        old = out[name]
        out[name] = sc.scalar(float(val), variance=old.variance, unit=old.unit)

    if "peak_loc" in out:
        if spec.get("loc_abs_frac") is not None:
            setv("peak_loc", float(x[0]) + spec["loc_abs_frac"] * span)
        else:
            setv("peak_loc", float(out["peak_loc"].value) + spec.get("loc_shift_frac", 0.0) * span)
    if "peak_scale" in out:
        setv("peak_scale", float(out["peak_scale"].value) * spec.get("scale_mul", 1.0))
    if "peak_amplitude" in out:
        setv("peak_amplitude", float(out["peak_amplitude"].value) * spec.get("amp_mul", 1.0))
    if "peak_fraction" in out and spec.get("fraction") is not None:
        setv("peak_fraction", spec["fraction"])
    return out


# =============================================================================


def _gen_spec(rng, names):
    r = rng.random()
    if r < 0.3:
        return {"as": "name", "models": [rng.choice(names)]}
    if r < 0.5:
        return {"as": "instance", "models": [rng.choice(names)]}
    k = rng.choice([1, 2, 2, 3]) if names is PEAK_NAMES else rng.choice([1, 2])
    ms = rng.sample(names, min(k, len(names)))
    return {"as": rng.choice(["names", "instances"]), "models": ms}


def generate(rng, tier, i):
    n = rng.choice([30, 60, 100, 100, 200, 400]) if rng.random() < 0.8 else rng.randrange(8, 201)
    lo = rng.choice([0.0, -5.0, 1.0, 100.0])
    hi = lo + rng.choice([1.0, 10.0, 50.0])
    grid = {"kind": rng.choice(["uniform", "uniform", "nonuniform", "gap"]), "n": n, "lo": lo, "hi": hi,
            "seed": rng.randrange(1 << 30)}
    span = hi - lo
    n_peaks = rng.choice([1, 1, 2, 2, 2, 3, 3, 4, 6])
    locs = sorted(lo + span * (0.08 + 0.84 * rng.random()) for _ in range(n_peaks))
    peaks = [{"shape": rng.choice(PEAK_NAMES), "loc": x, "width": span * 10 ** rng.uniform(-2.3, -1.0),
              "area": 10 ** rng.uniform(-2.0 if rng.random() < 0.3 else 0.0, 2.5) * span * 0.02,
              "fraction": rng.random()} for x in locs]
    curv = rng.random()
    bkg = [rng.uniform(0, 5), rng.uniform(-1, 1) / span,
           0.0 if curv < 0.35 else (rng.uniform(-1, 1) / span**2 if curv < 0.7 else rng.uniform(2, 30) / span**2)]
    truth = {"peaks": peaks, "bkg": bkg, "noise": 10 ** rng.uniform(-2.5, -0.3), "seed": rng.randrange(1 << 30)}
    # estimates: near the true locations, at the edges, outside the data
    est = []
    for x in locs:
        r = rng.random()
        if r < 0.75:
            est.append(x + rng.uniform(-0.01, 0.01) * span)
        elif r < 0.85:
            est.append(rng.choice([lo, hi]))
        elif r < 0.93:
            est.append(rng.choice([lo - 0.1 * span, hi + 0.1 * span]))
        else:
            est.append(lo + rng.random() * span)
    est.sort()
    step = span / max(1, n - 1)
    wm = rng.random()
    wmax = max(p["width"] for p in peaks)
    if wm < 0.3:
        # well-posed: windows several peak widths wide (most fits should succeed)
        windows = {"mode": "scalar", "width": max(wmax * rng.uniform(6, 14), 12 * step)}
    elif wm < 0.55:
        width = rng.choice([span * 10 ** rng.uniform(-1.6, -0.5), span * 10 ** rng.uniform(-1.6, -0.5),
                            step * rng.uniform(0.1, 0.9), step * rng.uniform(1, 8), span, 2 * span])
        windows = {"mode": "scalar", "width": width}
    else:
        ranges = []
        for e, pk in zip(est, peaks, strict=True):
            r = rng.random()
            if r < 0.45:
                w = max(pk["width"] * rng.uniform(6, 14), 12 * step)
                ranges.append([e - w / 2 + rng.uniform(-0.1, 0.1) * w, e + w / 2])
            elif r < 0.7:
                w = span * 10 ** rng.uniform(-1.5, -0.6)
                ranges.append([e - w / 2 + rng.uniform(-0.1, 0.1) * w, e + w / 2])
            elif r < 0.9:
                k = rng.randrange(0, 9)  # windows with 0..8 points
                a = e - step * 0.25
                ranges.append([a, a + step * k])
            else:
                ranges.append([lo - span, hi + span])
        if rng.random() < 0.2:
            order = list(range(len(est)))
            rng.shuffle(order)
            est = [est[j] for j in order]
            ranges = [ranges[j] for j in order]
        windows = {"mode": "explicit", "ranges": ranges}
    fp = None
    if rng.random() < 0.4:
        fp = {"guess_background_fraction": rng.choice([0.5, 0.2, 0.8, 0.34]),
              "neighbor_separation_factor": rng.choice([1 / 3, 0.0, 0.5, 0.25, 0.9])}
    fr = None
    if rng.random() < 0.4:
        fr = {"min_p_value": rng.choice([0.01, 0.0, 0.5, 1e-6]),
              "max_peak_width_factor": rng.choice([1.0, 0.5, 0.1, 3.0]),
              "min_peak_width_factor": rng.choice([1.0, 0.1, 3.0, 10.0])}
    f = rng.random()
    if f < 0.35:
        faults = {"mode": "none"}
    elif f < 0.6:
        faults = {"mode": "enum_single"}
    elif f < 0.7:
        faults = {"mode": "all_fail"}
    elif f < 0.8:
        faults = {"mode": "peak_full_fail", "peak": rng.randrange(n_peaks)}
    else:
        plan = []
        for _ in range(rng.randrange(1, 4)):
            a = {"peak": rng.randrange(n_peaks), "ordinal": rng.randrange(0, 6),
                 "action": rng.choice(["fail", "perturb", "perturb"])}
            if a["action"] == "perturb":
                a["perturb"] = {"loc_shift_frac": rng.choice([0.0, 0.02, -0.02, 0.3, -0.3]),
                                "loc_abs_frac": rng.choice([None, None, None, 0.0, 1.0, 0.5, 0.97, 0.03]),
                                "scale_mul": rng.choice([1.0, 0.01, 100.0, 1e-6, 3.0]),
                                "amp_mul": rng.choice([1.0, 0.0, 2.0, 0.5]),
                                "fraction": rng.choice([None, 0.0, 1.0])}
            plan.append(a)
        faults = {"mode": "plan", "plan": plan}
    return {
        "grid": grid, "coord_unit": rng.choice(["angstrom", "us", "one"]),
        "coord_dtype": rng.choice(["float64", "float64", "float64", "float32"]),
        "results_as": rng.choice(["list", "list", "tuple", "generator", "iter", "map"]),
        "windows_layout": rng.choice(["peak_first", "peak_first", "range_first"]),
        "data_unit": rng.choice(["counts", "one"]), "truth": truth,
        "estimates": est, "windows": windows,
        "background": _gen_spec(rng, BKG_NAMES), "peak": _gen_spec(rng, PEAK_NAMES),
        "fit_parameters": fp, "fit_requirements": fr, "faults": faults,
        "decompose": rng.random() < 0.6, "remove": rng.random() < 0.7,
    }


# =============================================================================


def make_grid(g):
    n = g["n"]
    if g["kind"] == "uniform":
        return np.linspace(g["lo"], g["hi"], n)
    r = np.random.default_rng(g["seed"])
    if g["kind"] == "nonuniform":
        steps = r.uniform(0.3, 1.7, n - 1)
    else:  # a few large gaps
        steps = r.uniform(0.8, 1.2, n - 1)
        for k in r.integers(0, n - 1, 3):
            steps[k] *= 15
        if r.random() < 0.5:
            steps[-1] *= 25
    x = np.concatenate([[0.0], np.cumsum(steps)])
    return g["lo"] + (g["hi"] - g["lo"]) * x / x[-1]


def make_data(scn):
    import scipp as sc

    x = make_grid(scn["grid"])
    if scn.get("coord_dtype", "float64") == "float32":
        # coordinates as stored in many NeXus files; every float32 is a float64, so the
        # reference computations keep working with the values the library sees
        x = x.astype("float32").astype("float64")
    t = scn["truth"]
    y = ref_fit.polynomial(x - x[0], t["bkg"])
    for p in t["peaks"]:
        if p["shape"] == "gaussian":
            y = y + ref_fit.gaussian(x, p["area"], p["loc"], p["width"])
        elif p["shape"] == "lorentzian":
            y = y + ref_fit.lorentzian(x, p["area"], p["loc"], p["width"])
        else:
            y = y + ref_fit.pseudo_voigt(x, p["area"], p["loc"], p["width"], p["fraction"])
    r = np.random.default_rng(t["seed"])
    sig = t["noise"] * (1 + 0.3 * r.random(len(x)))
    y = y + r.normal(0, 1, len(x)) * sig
    da = sc.DataArray(
        sc.array(dims=["x"], values=y, variances=sig**2, unit=scn["data_unit"]),
        coords={"x": sc.array(dims=["x"], values=x.astype(scn.get("coord_dtype", "float64")),
                              unit=scn["coord_unit"])},
    )
    return da, x, y, sig**2


def make_models(spec, kind):
    import scippneutron.peaks.model as M

    def inst(name):
        return {"linear": lambda: M.PolynomialModel(degree=1, prefix="b_"),
                "quadratic": lambda: M.PolynomialModel(degree=2),
                "gaussian": lambda: M.GaussianModel(prefix="whatever_"),
                "lorentzian": lambda: M.LorentzianModel(),
                "pseudo_voigt": lambda: M.PseudoVoigtModel(prefix="p")}[name]()

    if spec["as"] == "name":
        return spec["models"][0]
    if spec["as"] == "instance":
        return inst(spec["models"][0])
    if spec["as"] == "names":
        return list(spec["models"])
    return [inst(m) for m in spec["models"]]


def canon_result(r) -> list:
    def vb(v):
        return [core.fbits(float(v.value)), None if v.variance is None else core.fbits(float(v.variance)),
                str(v.unit)]

    return [
        r.assessment.name, r.message, type(r.peak).__name__, r.peak.prefix, type(r.background).__name__,
        r.background.prefix, len(r.background.param_names),
        [core.fbits(float(x)) for x in r.window.values], str(r.window.unit),
        sorted((k, vb(v)) for k, v in r.popt.items()), vb(r.red_chisq), vb(r.p_value), vb(r.aic),
    ]


def model_kind(m) -> str:
    return {"GaussianModel": "gaussian", "LorentzianModel": "lorentzian",
            "PseudoVoigtModel": "pseudo_voigt"}[type(m).__name__]


class FitEngine(Engine):
    prop = "C17"
    level = "fault_enumeration"
    title = "Peak fitting returns one coherent result per peak; removal touches only windows"
    rule = (
        "A case is one seeded fitting problem (synthetic spectrum with 1-6 Gaussian / Lorentzian / "
        "pseudo-Voigt peaks on a linear or quadratic background with noise; uniform, non-uniform and "
        "gapped grids; estimates near the peaks, at the edges, outside the data; scalar window widths "
        "from below the grid spacing to twice the range or explicit windows holding 0..8 points; "
        "model specifications as name / instance / list of names / list of instances; seeded "
        "FitParameters and FitRequirements) together with a fault plan for the optimiser proxy: "
        "none; 'enum_single' = EVERY optimiser call of the fault-free run (peak, ordinal) is failed "
        "once, one plan per call (complete enumeration of the single-failure plans of that input); "
        "'all_fail'; 'every full fit of peak i fails'; seeded plans mixing failures with 'another "
        "legal optimum' returned by the optimiser. evaluations = problems; plans executed are in "
        "counters. Distinct = distinct scenario digest; non-trivial = at least one peak was fitted by "
        "the real optimiser AND (a fault fired or >= 2 peaks were compared with their "
        "single-peak reference)."
    )
    assumptions = [
        "only RuntimeError is injected (scipy's documented non-convergence signal, the exception the "
        "code says it handles); a perturbed optimum stays inside the parameter bounds",
        "isolation is judged by comparing each result of the multi-peak call with a call that has "
        "only that estimate and the same explicit window, under the plan restricted to that peak; "
        "both sides run the same real optimiser, so no optimiser numerics are predicted",
        "statistics recomputed with closed forms written from the docstrings (rel 1e-9) when n_dof > 0",
        "requirements are enforced only in the direction success => requirement",
        "admissible input = 1-d, dense, strictly increasing coordinate, finite values, positive "
        "variances, sorted estimates when windows are built automatically",
        "optimiser calls are attributed to peaks by the (first, last, length) of the window data; "
        "problems where two peaks have identical window data skip the fault family",
    ]
    components_real = ["scippneutron.peaks (fit_peaks, remove_peaks, models)",
                       "scipp.scipy.optimize.curve_fit / scipy least squares (behind the proxy)", "scipp"]
    components_stubbed = ["OptimizerProxy in place of _fit_peaks.curve_fit: numbers and logs every call, "
                          "delegates, raises RuntimeError, or returns another legal optimum"]

    def budget(self, tier):
        return 220 if tier == "quick" else 4000

    def timeout(self, tier):
        return 900

    def setup(self):
        import scippneutron.peaks._fit_peaks as fp

        _STATE["real"] = fp.curve_fit
        fp.curve_fit = OptimizerProxy()

    SWEEP_RUNS = 8

    def selftest_indices(self, n):
        # the sweep runs (index 0..7) are re-executed under another hash seed by every check's own
        # determinism re-check (it always includes run 0); the light self-test takes ordinary runs
        return list(range(self.SWEEP_RUNS, self.SWEEP_RUNS + n))

    def generate(self, rng, tier, i):
        import random

        if 0 <= i < self.SWEEP_RUNS:
            # enumerated interleavings: one canonical input shared by the sweep runs; every
            # distinct source line of _fit_peaks.py is used once as the point where a second
            # caller's fit_peaks (same kind of spectrum, other noise) runs
            for seed in range(4242, 4342):
                scn = generate(random.Random(seed), tier, -1)
                if (len(scn["estimates"]) == 2 and scn["grid"]["n"] <= 120 and scn["windows"]["mode"] == "scalar"
                        and len(scn["peak"]["models"]) == 1 and len(scn["background"]["models"]) == 1):
                    break
            # a well-conditioned input (two separated Gaussian peaks on a line, estimates close to
            # the truth): the sweep is about scheduling points, not about hard fits
            scn.update(faults={"mode": "none"}, decompose=False, remove=False, coord_dtype="float64",
                       grid={"kind": "uniform", "n": 101, "lo": 1.0, "hi": 2.0, "seed": 1},
                       truth={"bkg": [2.0, 0.5], "noise": 0.05, "seed": 7,
                              "peaks": [{"shape": "gaussian", "area": 1.0, "loc": 1.3, "width": 0.03},
                                        {"shape": "gaussian", "area": 0.7, "loc": 1.7, "width": 0.04}]},
                       estimates=[1.31, 1.69], windows={"mode": "scalar", "width": 0.3},
                       background={"as": "name", "models": ["linear"]}, peak={"as": "name", "models": ["gaussian"]},
                       fit_parameters=None, fit_requirements=None)
            half = self.SWEEP_RUNS // 2
            depth = "all"  # ~400 line events per call: every line boundary is affordable at both tiers
            if i < half:
                # two peaks; the other caller fits the same kind of spectrum with other noise
                scn["interleave"] = {"sweep": [i, half], "other_seed": 99, "depth": depth}
                scn["interrupt"] = {"sweep": [i, half]}
            else:
                # one peak; the other caller makes the very same call on the same data (two workers
                # given the same input): whatever one caller leaves in shared state is exactly
                # what the other is about to look up
                scn["truth"]["peaks"] = scn["truth"]["peaks"][:1]
                scn["estimates"] = scn["estimates"][:1]
                scn["interleave"] = {"sweep": [i - half, half], "other_seed": scn["truth"]["seed"], "depth": depth}
            return scn
        scn = generate(rng, tier, i)
        if rng.random() < 0.12:
            # model-selection family: a faint peak on a strongly curved background, both background
            # models offered (either order): the background-only fits decide the assessment
            order = ["linear", "quadratic"]
            rng.shuffle(order)
            scn["background"] = {"as": "names", "models": order}
            span = scn["grid"]["hi"] - scn["grid"]["lo"]
            scn["truth"]["bkg"] = [scn["truth"]["bkg"][0], rng.uniform(-2, 2) / span, rng.choice([-1, 1]) * rng.uniform(5, 25) / span**2]
            for pk in scn["truth"]["peaks"]:
                pk["area"] = pk["area"] * rng.choice([0.005, 0.02, 0.1])
        if len(scn["estimates"]) > 1 and scn["windows"]["mode"] == "scalar" and rng.random() < 0.08:
            # the same estimate given twice (two candidate lists merged): still one result each
            k = rng.randrange(len(scn["estimates"]) - 1)
            scn["estimates"][k + 1] = scn["estimates"][k]
        if rng.random() < 0.15:
            # single precision caller: estimates and scalar width are float32 variables (the
            # scenario keeps their exact float32 values so that every oracle sees the same numbers)
            scn["arg_dtype"] = "float32"
            scn["estimates"] = [float(np.float32(e)) for e in scn["estimates"]]
            if scn["windows"]["mode"] == "scalar":
                scn["windows"]["width"] = float(np.float32(scn["windows"]["width"]))
        if rng.random() < 0.12:
            scn["logging"] = rng.choice(["INFO", "DEBUG"])  # the application has logging switched on
        if rng.random() < 0.1:
            # Ctrl-C inside fit_peaks, then the same call again or the next spectrum of the same kind
            scn["interrupt"] = {"frac": rng.random(), "then": rng.choice(["same", "next"])}
        if rng.random() < 0.12:
            scn["interleave"] = {"frac": rng.random(), "where": rng.choice(["site", "site", "line"]),
                                 "other_seed": scn["truth"]["seed"] if rng.random() < 0.3 else rng.randrange(1 << 30)}
        return scn

    # ----------------------------------------------------------------- calls
    def _fit(self, scn, ctx, da, estimates, windows, plan, keymap, label):
        import scipp as sc
        from scippneutron.peaks import FitParameters, FitRequirements, fit_peaks

        u = scn["coord_unit"]
        # a caller working in single precision has float32 estimates and widths too (exact in float64)
        adt = scn.get("arg_dtype", "float64")
        est = sc.array(dims=["x"], values=np.asarray(estimates, dtype=float).astype(adt), unit=u)
        if isinstance(windows, dict) and windows["mode"] == "scalar":
            win = sc.scalar(float(windows["width"]), unit=u, dtype=adt)
        else:
            rg = windows["ranges"] if isinstance(windows, dict) else windows
            win = sc.array(dims=["x", "range"], values=np.asarray(rg, dtype=float).reshape(-1, 2), unit=u)
            if scn.get("windows_layout") == "range_first":
                # sizes {dim: n, 'range': 2} in the other dimension order (what
                # sc.concat([lo, hi], 'range') gives)
                win = win.transpose(["range", "x"]).copy()
        kw = {}
        if scn["fit_parameters"]:
            kw["fit_parameters"] = FitParameters(**scn["fit_parameters"])
        if scn["fit_requirements"]:
            kw["fit_requirements"] = FitRequirements(**scn["fit_requirements"])
        _STATE.update(plan=plan, log=[], keymap=keymap, ctx=ctx)
        res, exc = core.capture(
            fit_peaks, da, peak_estimates=est, windows=win,
            background=make_models(scn["background"], "bkg"), peak=make_models(scn["peak"], "peak"), **kw)
        log = _STATE["log"]
        _STATE.update(plan=None, log=None, keymap=None, ctx=None)
        ctx.log(label, "raised:" + exc.name if exc else [r.assessment.name for r in res],
                [(c["ordinal"], c["full"], c["outcome"]) for c in log])
        ctx.count("fit_peaks_calls")
        ctx.count("optimiser_calls", len(log))
        return res, exc, log

    def _fit_nested(self, scn, ctx, da, label):
        """fit_peaks by another simulated caller while a first caller's call is in progress: the
        optimiser proxy's bookkeeping of the outer call is put aside and restored."""
        saved = dict(_STATE)
        try:
            return self._fit(scn, ctx, da, scn["estimates"], scn["windows"], None, None, label)
        finally:
            _STATE.update(saved)

    def _interrupted(self, scn, ctx, da, R):
        """The caller is interrupted (Ctrl-C, cancelled task) at a line boundary of _fit_peaks.py and
        then calls fit_peaks again with the same arguments: the results must be those of the
        undisturbed call."""
        import scippneutron.peaks._fit_peaks as fp_mod

        it = scn["interrupt"]
        prefixes = (fp_mod.__file__,)
        counter = seams.Preemptor(prefixes, {})
        _, e0, _ = counter.run(lambda: self._fit(scn, ctx, da, scn["estimates"], scn["windows"], None, None,
                                                 "counting pass"))
        if e0 is not None:
            return
        total = counter.ordinal
        if it.get("sweep"):
            part, of = it["sweep"]
            pts = [k for k in range(total) if k % of == part]
            ctx.count("interruption_points_enumerated", len(pts))
        else:
            pts = [min(total - 1, int(it["frac"] * total)) if total else 0]
        want = [canon_result(r) for r in R]
        # the next call after the interruption is either the same call again or the next spectrum of
        # the same kind (same grid, estimates and windows, other counts): its undisturbed result
        twin = copy.deepcopy({k: v for k, v in scn.items() if k not in ("interrupt", "interleave")})
        twin["truth"]["seed"] = (scn["truth"]["seed"] * 7919 + 13) % (1 << 31)
        twin["faults"] = {"mode": "none"}
        da_t = make_data(twin)[0]
        Rt, et, _ = self._fit(twin, ctx, da_t, twin["estimates"], twin["windows"], None, None, "next spectrum alone")
        want_t = None if et is not None else [canon_result(r) for r in Rt]
        for n_pt, at in enumerate(pts):
            ctx.fault_configured("interrupt_in_fit")
            try:
                seams.Preemptor(prefixes, {at: seams.interrupt_now}).run(
                    lambda: self._fit(scn, ctx, da, scn["estimates"], scn["windows"], None, None, "interrupted"))
                ctx.probe("interruption_point_not_reached")
                continue
            except seams.SimInterrupt:
                _STATE.update(plan=None, log=None, keymap=None, ctx=None)
            ctx.fault_fired("interrupt_in_fit")
            ctx.log("interrupted", at, total)
            if want_t is not None and (it.get("then") == "next" or (it.get("sweep") and n_pt % 2 == 1)):
                R3, e3, _ = self._fit(twin, ctx, da_t, twin["estimates"], twin["windows"], None, None,
                                      "next spectrum after interrupt")
                ctx.probe("next_spectrum_after_interruption")
                if e3 is not None:
                    ctx.violate("raised", f"after an interruption at line event {at}/{total} fit_peaks on the next "
                                f"spectrum raised {e3}", kind="raised:after_interrupt", _hint={"int_at": at})
                    return
                got = [canon_result(r) for r in R3]
                if got != want_t:
                    k = next((j for j, (a, b) in enumerate(zip(got, want_t, strict=False)) if a != b), 0)
                    ctx.violate("isolation", f"after an interruption at line event {at}/{total} the call on the next "
                                f"spectrum (same grid and windows) returns {R3[k].assessment.name} for peak {k}, "
                                f"undisturbed it returns {Rt[k].assessment.name}", kind="isolation:after_interrupt",
                                _hint={"int_at": at})
                    return
                continue
            R2, e2, _ = self._fit(scn, ctx, da, scn["estimates"], scn["windows"], None, None, "again after interrupt")
            if e2 is not None:
                ctx.violate("raised", f"after an interruption at line event {at}/{total} fit_peaks raised {e2}",
                            kind="raised:after_interrupt", _hint={"int_at": at})
                return
            got = [canon_result(r) for r in R2]
            if got != want:
                k = next((j for j, (a, b) in enumerate(zip(got, want, strict=False)) if a != b), 0)
                ctx.violate("isolation", f"after an interruption at line event {at}/{total} the same call returns a "
                            f"different result for peak {k} than undisturbed", kind="isolation:after_interrupt",
                            _hint={"int_at": at})
                return

    def _interleaved(self, scn, ctx, da, R):
        """Two callers, two spectra: the second caller's whole fit_peaks runs while the first is
        at one line boundary of _fit_peaks.py.  Each caller must get exactly what it gets alone."""
        import scippneutron.peaks._fit_peaks as fp_mod

        il = scn["interleave"]
        other = copy.deepcopy({k: v for k, v in scn.items() if k != "interleave"})
        other["truth"]["seed"] = il["other_seed"]
        other["faults"] = {"mode": "none"}
        da_o = make_data(other)[0]
        Ro, eo, _ = self._fit(other, ctx, da_o, other["estimates"], other["windows"], None, None, "other alone")
        if eo is not None:
            return
        want_m = [canon_result(r) for r in R]
        want_o = [canon_result(r) for r in Ro]
        prefixes = (fp_mod.__file__,)
        counter = seams.Preemptor(prefixes, {})
        _, e0, _ = counter.run(lambda: self._fit(scn, ctx, da, scn["estimates"], scn["windows"], None, None,
                                                 "counting pass"))
        if e0 is not None:
            return
        totals = {"line": counter.ordinal, "site": len(counter.site_order)}
        if il.get("sweep"):
            part, of = il["sweep"]
            if il.get("depth") == "all":  # thorough: every line boundary of _fit_peaks.py frames
                pts = [("line", k) for k in range(totals["line"]) if k % of == part]
            else:
                pts = [("site", k) for k in range(totals["site"]) if k % of == part]
            ctx.count("interleaving_points_enumerated", len(pts))
        else:
            where = il.get("where", "site")
            total = totals[where]
            pts = [(where, il["at"] if "at" in il else (min(total - 1, int(il["frac"] * total)) if total else 0))]
        for where, at in pts:
            state = {}
            kind = "preempt_at_source_line" if where == "site" else "preempt_in_fit"
            ctx.fault_configured(kind)

            def cb(frame, state=state, where=where, at=at):
                state["at"] = f"{frame.f_code.co_name}:{frame.f_lineno}"
                ctx.log("preempt", state["at"], where, at)
                ctx.site("preempt@_fit_peaks.py:" + frame.f_code.co_name)
                state["res"] = self._fit_nested(other, ctx, da_o, "other caller")

            pre = seams.Preemptor(prefixes, {at: cb} if where == "line" else {},
                                  site_points={at: cb} if where == "site" else None)
            pre.once = True
            Rm, em, _ = pre.run(lambda: self._fit(scn, ctx, da, scn["estimates"], scn["windows"], None, None,
                                                  "pre-empted"))
            if "res" not in state:
                ctx.probe("preemption_point_not_reached")
                continue
            ctx.fault_fired(kind)
            ctx.probe("two_fits_interleaved")
            desc = f"{where} {at}/{totals[where]} = {state['at']}"
            hint = {"il_where": where, "il_at": at}
            Rn, en, _ = state["res"]
            for who, e in (("pre-empted", em), ("pre-empting", en)):
                if e is not None:
                    ctx.violate("raised", f"[interleaved at {desc}] the {who} caller's fit_peaks raised {e}",
                                kind="raised:interleaved", _hint=hint)
                    break
            else:
                for who, got, want in (("pre-empted", Rm, want_m), ("pre-empting", Rn, want_o)):
                    g = [canon_result(r) for r in got]
                    if g != want:
                        k = next((j for j, (a, b) in enumerate(zip(g, want, strict=False)) if a != b), 0)
                        ctx.violate("isolation", f"[interleaved at {desc}] the {who} caller's result for peak {k} "
                                    f"differs from what the same call returns alone: "
                                    f"{got[k].assessment.name} p={float(got[k].p_value.value)!r} vs p="
                                    f"{want[k][3] if len(want[k]) > 3 else '?'}",
                                    kind="isolation:interleaved_" + who, _hint=hint)

    def _key_of(self, da, window):
        sl = da["x", window[0]:window[1]]
        x = sl.coords["x"].values
        return (len(x), core.fbits(float(x[0])) if len(x) else "", core.fbits(float(x[-1])) if len(x) else "")

    # --------------------------------------------------------------- execute
    def execute(self, scn, ctx, scratch):
        warnings.simplefilter("ignore")
        np.seterr(all="ignore")
        da, x, y, var = make_data(scn)
        pristine = da.copy()
        n_est = len(scn["estimates"])
        ctx.step(f"{scn['windows']['mode']}:{scn['faults']['mode']}:p{n_est}:"
                 f"{scn['peak']['as']}{len(scn['peak']['models'])}:{scn['background']['as']}{len(scn['background']['models'])}")

        # ---- fault-free twin ------------------------------------------------
        R, exc, log = self._fit(scn, ctx, da, scn["estimates"], scn["windows"], None, None, "twin")
        if exc is not None:
            ctx.violate("raised", f"fit_peaks raised {exc} for an admissible input",
                        kind="raised:" + exc.name + ":" + exc.msg[:40], exc=exc.name)
            return
        if len(R) != n_est:
            ctx.violate("count", f"{len(R)} results for {n_est} peak estimates", kind="count")
            return
        self._input_untouched(ctx, da, pristine, "fit_peaks")
        windows = [[float(r.window.values[0]), float(r.window.values[1])] for r in R]
        self._judge_windows(scn, ctx, x, windows)
        keys = [self._key_of(da, r.window) for r in R]
        nonempty = [k for k in keys if k[0] > 0]
        unique = len(set(nonempty)) == len(nonempty)
        keymap = {k: i for i, k in enumerate(keys) if k[0] > 0} if unique else None
        calls_by_peak = {i: [c for c in log if keymap and keymap.get(c["key"]) == i] for i in range(n_est)}
        for i, r in enumerate(R):
            self._judge_result(scn, ctx, da, x, y, var, r, calls_by_peak.get(i) or [], f"twin peak {i}")
            if keymap:
                self._judge_attempt_order(scn, ctx, calls_by_peak.get(i) or [], keys[i][0], f"twin peak {i}")
        # ---- isolation, fault-free: every peak alone -------------------------------
        singles = {}
        if n_est > 1 or True:
            for i in range(n_est):
                S, e2, _ = self._fit(scn, ctx, da, [scn["estimates"][i]], [windows[i]], None, None,
                                     f"single {i}")
                if e2 is not None or len(S) != 1:
                    ctx.violate("isolation", f"fitting peak {i} alone (same window) raised {e2} / gave "
                                f"{None if S is None else len(S)} results, inside the multi-peak call it "
                                f"gave {R[i].assessment.name}", kind="isolation:single_raised")
                    continue
                singles[i] = canon_result(S[0])
                if singles[i] != canon_result(R[i]):
                    ctx.violate("isolation", f"result for peak {i} of the {n_est}-peak call differs from "
                                f"fitting that peak alone with the same window: "
                                f"{R[i].assessment.name}/{R[i].message} vs {S[0].assessment.name}/{S[0].message}",
                                kind="isolation:fault_free")
            ctx.count("single_peak_references", n_est)
        if scn.get("interleave"):
            self._interleaved(scn, ctx, da, R)
        if scn.get("interrupt"):
            self._interrupted(scn, ctx, da, R)
        twin_nfev = sum(c.get("nfev", 0) for c in log)
        ctx.count("model_evaluations_twin", twin_nfev)
        if scn.get("decompose") and twin_nfev < 4000:
            self._decompose(scn, ctx, da, R, windows)
        if scn.get("remove"):
            self._judge_remove(scn, ctx, da, x, y, R, "twin")

        # ---- fault family -------------------------------------------------------------
        mode = scn["faults"]["mode"]
        if mode == "none":
            return
        if not unique:
            ctx.probe("fault_family_skipped_duplicate_windows")
            return
        plans = []
        if mode == "enum_single":
            for i in range(n_est):
                for c in calls_by_peak[i]:
                    plans.append([{"peak": i, "ordinal": c["ordinal"], "action": "fail"}])
            # deterministic cost cap: the twin's number of model evaluations bounds how many
            # re-runs we can afford (never a wall-clock decision)
            twin_cost = max(1, sum(c.get("nfev", 0) for c in log))
            cap = max(3, min(len(plans), 12000 // twin_cost))
            if cap < len(plans):
                stride = len(plans) / cap
                plans = [plans[int(j * stride)] for j in range(cap)]
                ctx.probe("single_failure_plans_subsampled")
            else:
                ctx.probe("single_failure_plans_enumerated_completely")
        elif mode == "all_fail":
            plans.append([{"all": True, "action": "fail"}])
        elif mode == "peak_full_fail":
            plans.append([{"peak": scn["faults"]["peak"] % n_est, "every_full": True, "action": "fail"}])
        else:
            plans.append([dict(a, peak=a["peak"] % n_est) for a in scn["faults"]["plan"]])
        for plan in plans:
            for a in plan:
                ctx.fault_configured("optimiser_runtime_error" if a["action"] == "fail"
                                     else "optimiser_other_legal_optimum")
            self._run_plan(scn, ctx, da, x, y, var, R, windows, keymap, plan, singles)
        ctx.count("fault_plans_executed", len(plans))
        self._input_untouched(ctx, da, pristine, "fit_peaks under faults")

    # -------------------------------------------------------------- oracles
    def _input_untouched(self, ctx, da, pristine, what):
        import scipp as sc

        if not sc.identical(da, pristine, equal_nan=True):
            ctx.violate("input_modified", f"{what} modified its input data array", kind="input_modified")

    def _judge_windows(self, scn, ctx, x, windows):
        est = scn["estimates"]
        if scn["windows"]["mode"] != "scalar":
            for i, (w, r) in enumerate(zip(windows, scn["windows"]["ranges"], strict=True)):
                if w != [float(r[0]), float(r[1])]:
                    ctx.violate("window_order", f"result {i} has window {w}, but window {i} given was {r}",
                                kind="window_order")
            return
        lo, hi = float(x.min()), float(x.max())
        f = (scn["fit_parameters"] or {}).get("neighbor_separation_factor", 1 / 3)
        for i, (a, b) in enumerate(windows):
            if a < lo or b > hi or a > hi or b < lo or b < a:
                ctx.violate("windows", f"automatic window {i} = [{a}, {b}] leaves the data range "
                            f"[{lo}, {hi}]", kind="windows:range")
            if lo <= est[i] <= hi and not (a <= est[i] <= b):
                ctx.violate("windows", f"automatic window {i} = [{a}, {b}] does not contain its estimate "
                            f"{est[i]}", kind="windows:contain")
            # the distances are computed in the precision of the caller's estimates: a few
            # float32 ulps of the coordinate scale when the caller works in single precision
            eps = 1e-12 if scn.get("arg_dtype", "float64") == "float64" else 4 * 2.0 ** -23
            tol = eps * max(1.0, abs(hi), abs(lo))
            if not lo <= est[i] <= hi:
                # for an estimate outside the data, "inside the range" and "keep the distance from
                # the neighbour" can contradict each other: only the range is judged
                ctx.probe("separation_not_judged_for_estimate_outside_data")
                continue
            if i > 0:
                need = est[i - 1] + f * (est[i] - est[i - 1])
                if a < need - tol:
                    ctx.violate("windows", f"window {i} starts at {a}, closer than {f} x distance to the "
                                f"left neighbour estimate {est[i - 1]} (limit {need})", kind="windows:separation")
            if i + 1 < len(est):
                need = est[i + 1] - f * (est[i + 1] - est[i])
                if b > need + tol:
                    ctx.violate("windows", f"window {i} ends at {b}, closer than {f} x distance to the "
                                f"right neighbour estimate {est[i + 1]} (limit {need})", kind="windows:separation")
        ctx.count("auto_windows_checked", len(windows))

    def _judge_result(self, scn, ctx, da, x, y, var, r, calls, where):
        a, b = float(r.window.values[0]), float(r.window.values[1])
        m = (x >= a) & (x < b)
        xs, ys, vs = x[m], y[m], var[m]
        name = r.assessment.name
        ctx.count("assessment_" + name)
        try:
            pk = model_kind(r.peak)
            deg = len(r.background.param_names) - 1
        except KeyError:
            ctx.violate("result_models", f"[{where}] unexpected model types {type(r.peak).__name__}",
                        kind="result_models")
            return
        k = ref_fit.n_params(pk, deg)
        if name == "window_too_narrow":
            if len(xs) >= k:
                ctx.violate("too_narrow", f"[{where}] window with {len(xs)} points reported too narrow "
                            f"for {k} parameters", kind="too_narrow:wrong")
            if calls and all(set(c["names"]) >= set(r.peak.param_names) for c in calls if c["full"]) and \
                    len(xs) < k and any(c["full"] and len(c["names"]) == k for c in calls):
                ctx.violate("too_narrow", f"[{where}] optimiser was called for an attempt whose window "
                            "is too narrow", kind="too_narrow:optimiser_called")
            return
        if len(xs) < k and name != "failed":
            ctx.violate("too_narrow", f"[{where}] window holds {len(xs)} points for {k} parameters but "
                        f"the result is {name}", kind="too_narrow:missed")
        popt = {kk: float(v.value) for kk, v in r.popt.items()}
        if any(math.isnan(v) for v in popt.values()):
            if name == "success":
                ctx.violate("success_req", f"[{where}] success with NaN parameters", kind="success:nan")
            return
        want_names = set(r.peak.param_names) | set(r.background.param_names)
        if set(popt) != want_names:
            ctx.violate("coherence", f"[{where}] popt keys {sorted(popt)} != model parameters "
                        f"{sorted(want_names)}", kind="coherence:names")
            return
        import scipp as sc

        # model values through the public FitResult.eval_model (the models themselves are C16's
        # subject); cross-checked against the closed forms with a conditioning-aware tolerance
        # (fitted polynomials can have huge cancelling coefficients)
        model = r.eval_model(sc.array(dims=["x"], values=xs, unit=scn["coord_unit"])).values
        terms = sum(abs(popt[f"{r.background.prefix}a{j}"]) * np.abs(xs) ** j for j in range(deg + 1)) + \
            np.abs(ref_fit.eval_peak(pk, xs, popt))
        closed = ref_fit.eval_background(deg, xs, popt) + ref_fit.eval_peak(pk, xs, popt)
        if np.any(np.abs(closed - model) > 1e-12 * terms + 1e-300):
            ctx.violate("coherence", f"[{where}] FitResult.eval_model differs from the closed-form model "
                        f"by {float(np.max(np.abs(closed - model)))}", kind="coherence:eval_model")
        chisq, red, p, aic = ref_fit.stats(xs, ys, vs, model, k)
        if len(xs) - k > 0:
            for nm, got, want in (("red_chisq", float(r.red_chisq.value), red),
                                  ("p_value", float(r.p_value.value), p), ("aic", float(r.aic.value), aic)):
                if not ref_fit.close(got, want, abs_=1e-12 if nm == "p_value" else 0.0):
                    ctx.violate("coherence", f"[{where}] reported {nm}={got!r} but recomputing from the "
                                f"returned parameters and the window data gives {want!r}",
                                kind="coherence:" + nm)
            ctx.count("statistics_recomputed")
        if name != "success":
            return
        # success => every stated requirement
        fr = {"min_p_value": 0.01, "max_peak_width_factor": 1.0, "min_peak_width_factor": 1.0}
        fr.update(scn["fit_requirements"] or {})
        if len(xs) - k > 0 and p < fr["min_p_value"] - 1e-12:
            ctx.violate("success_req", f"[{where}] success but p={p} < min_p_value={fr['min_p_value']}",
                        kind="success:p")
        if len(xs) - k <= 0 and fr["min_p_value"] > 0:
            # no degrees of freedom: the p-value is undefined (the library reports nan), so the
            # stated requirement p >= min_p_value cannot be said to hold
            ctx.probe("success_with_zero_degrees_of_freedom")
            ctx.violate("success_req", f"[{where}] success for a window of {len(xs)} points and {k} parameters: "
                        f"no degrees of freedom, reported p_value={float(r.p_value.value)!r} cannot satisfy "
                        f"min_p_value={fr['min_p_value']}", kind="success:p_undefined")
        fw = ref_fit.fwhm(pk, popt)
        spanw = xs[-1] - xs[0]
        if fw > fr["max_peak_width_factor"] * spanw * (1 + 1e-12):
            ctx.violate("success_req", f"[{where}] success but FWHM={fw} > {fr['max_peak_width_factor']} x "
                        f"window span {spanw}", kind="success:too_wide")
        c = int(np.argmin(np.abs(xs - popt["peak_loc"])))
        # "the spacing of the coordinate around the peak centre": the mean of the two adjacent
        # intervals; at the first / last point of the window there is only one adjacent interval
        # (how close to the edge is "too close" is not quantified by the requirements, so a centre
        # nearest to a boundary point is not by itself a violation)
        lo_i, hi_i = max(c - 1, 0), min(c + 1, len(xs) - 1)
        if hi_i > lo_i:
            if c in (0, len(xs) - 1):
                ctx.probe("success_with_centre_nearest_to_a_boundary_point")
            bw = (xs[hi_i] - xs[lo_i]) / (hi_i - lo_i)
            if fw < fr["min_peak_width_factor"] * bw * (1 - 1e-12):
                ctx.violate("success_req", f"[{where}] success but FWHM={fw} < {fr['min_peak_width_factor']} "
                            f"x local spacing {bw}", kind="success:too_narrow")
        if popt.get("peak_amplitude", 0.0) < 0:
            ctx.violate("success_req", f"[{where}] success with negative amplitude", kind="success:sign")
        if not (xs[0] <= popt["peak_loc"] <= xs[-1]):
            ctx.violate("success_req", f"[{where}] success but location {popt['peak_loc']} outside window "
                        f"data [{xs[0]}, {xs[-1]}]", kind="success:outside")
        # AIC not worse than the background-only fit's.  The background models are linear in their
        # parameters, so the background-only least-squares optimum is unique and can be computed
        # independently (weighted polynomial fit); the library's own background fit, when it
        # returns, converges to it.
        bkg_failed = any((not cc["full"]) and cc["outcome"] in ("injected_failure", "real_failure")
                         for cc in calls)
        if not bkg_failed and len(xs) > deg + 1:
            x0 = xs.mean()
            try:
                coef = np.polynomial.polynomial.polyfit(xs - x0, ys, deg, w=1 / np.sqrt(vs))
                bm = np.polynomial.polynomial.polyval(xs - x0, coef)
                _, _, _, baic = ref_fit.stats(xs, ys, vs, bm, deg + 1)
            except Exception:  # noqa: BLE001
                baic = math.inf
            if baic < aic - 1e-6 * max(1.0, abs(aic)):
                ctx.violate("success_req", f"[{where}] success although the background-only model "
                            f"({['', 'linear', 'quadratic'][deg]}) fits better: AIC(bkg)={baic} < "
                            f"AIC(bkg+peak)={aic}", kind="success:aic")
            ctx.count("background_aic_compared")

    def _judge_attempt_order(self, scn, ctx, calls, npts, where, hint=None):
        """Model combinations are tried in the documented order: peak-major, background-minor
        ('the background is varied first'), until the first success.  Read off the proxy log."""
        pn = {"gaussian": ["amplitude", "loc", "scale"], "lorentzian": ["amplitude", "loc", "scale"],
              "pseudo_voigt": ["amplitude", "loc", "scale", "fraction"]}
        bn = {"linear": ["a0", "a1"], "quadratic": ["a0", "a1", "a2"]}
        pairs = [(p, b) for p in scn["peak"]["models"] for b in scn["background"]["models"]]
        if len(pairs) < 2 or npts < 7:
            return
        want = [sorted(["peak_" + n for n in pn[p]] + ["bkg_" + n for n in bn[b]]) for p, b in pairs]
        seen = [c["names"] for c in calls if c["full"]]
        for j, names in enumerate(seen):
            if j >= len(want) or names != want[j]:
                ctx.violate(
                    "model_selection",
                    f"[{where}] attempt {j} fitted parameters {names}, but the documented order "
                    f"(peak-major, background varied first) has {pairs[j] if j < len(pairs) else 'no more combinations'} "
                    f"= {want[j] if j < len(want) else None} here", kind="model_selection:attempt_order",
                    **({"_hint": hint} if hint else {}))
                return
        ctx.count("attempt_orders_checked")

    def _run_plan(self, scn, ctx, da, x, y, var, R, windows, keymap, plan, singles):
        n_est = len(R)
        RF, exc, log = self._fit(scn, ctx, da, scn["estimates"], scn["windows"], plan, keymap, "faulted")
        desc = core.jdump(plan)[:200]
        if exc is not None:
            ctx.violate("raised", f"fit_peaks raised {exc} when optimiser calls {desc} failed / moved",
                        kind="raised_under_fault", exc=exc.name, _hint={"plan": plan})
            return
        if len(RF) != n_est:
            ctx.violate("count", f"{len(RF)} results for {n_est} estimates under plan {desc}",
                        kind="count", _hint={"plan": plan})
            return
        touched = {a["peak"] for a in plan if "peak" in a}
        everything = any(a.get("all") for a in plan)
        calls_by_peak = {i: [c for c in log if keymap.get(c["key"]) == i] for i in range(n_est)}
        for i in range(n_est):
            cr = canon_result(RF[i])
            w = [float(RF[i].window.values[0]), float(RF[i].window.values[1])]
            if w != windows[i]:
                ctx.violate("window_order", f"window of result {i} changed under faults: {w} vs {windows[i]}",
                            kind="window_order", _hint={"plan": plan})
            if not everything and i not in touched:
                if cr != canon_result(R[i]):
                    ctx.violate(
                        "isolation",
                        f"peak {i} was not targeted by the fault plan {desc} but its result changed: "
                        f"{R[i].assessment.name}/{R[i].message} -> {RF[i].assessment.name}/{RF[i].message}",
                        kind="isolation:bystander", _hint={"plan": plan})
            else:
                sub = [a for a in plan if a.get("all") or a.get("peak") == i]
                sub = [dict(a, peak=0) if "peak" in a else a for a in sub]
                S, e2, slog = self._fit(scn, ctx, da, [scn["estimates"][i]], [windows[i]], sub,
                                        {k: 0 for k, v in keymap.items() if v == i}, f"single {i} faulted")
                if e2 is not None or len(S) != 1:
                    ctx.violate("isolation", f"single-peak reference for peak {i} under plan raised {e2}",
                                kind="isolation:single_raised", _hint={"plan": plan})
                elif canon_result(S[0]) != cr:
                    ctx.violate(
                        "isolation",
                        f"peak {i} under plan {desc}: multi-peak call gives {RF[i].assessment.name}/"
                        f"{RF[i].message}, the same peak alone under the same plan gives "
                        f"{S[0].assessment.name}/{S[0].message}", kind="isolation:targeted",
                        _hint={"plan": plan})
                # control flow: a full fit that was made to fail cannot be the returned success
                calls = calls_by_peak[i]
                if RF[i].assessment.name == "success":
                    popt = {kk: float(v.value) for kk, v in RF[i].popt.items()}
                    src = [c for c in calls if c["full"] and c.get("popt") and
                           all(c["popt"].get(n_) == popt.get(n_) for n_ in popt)]
                    if not src:
                        ctx.violate("control_flow", f"peak {i}: result marked success but no successful "
                                    f"optimiser call returned its parameters (plan {desc})",
                                    kind="control_flow:phantom_success", _hint={"plan": plan})
                if calls and all(c["outcome"] == "injected_failure" for c in calls if c["full"]) and \
                        any(c["full"] for c in calls) and RF[i].assessment.name == "success":
                    ctx.violate("control_flow", f"peak {i}: every full fit failed but the result is success",
                                kind="control_flow:success_after_failure", _hint={"plan": plan})
            self._judge_result(scn, ctx, da, x, y, var, RF[i], calls_by_peak[i], f"plan {desc} peak {i}")
            npts = next((k[0] for k, v in keymap.items() if v == i), 0)
            self._judge_attempt_order(scn, ctx, calls_by_peak[i], npts, f"plan {desc} peak {i}", {"plan": plan})
        if scn.get("remove"):
            self._judge_remove(scn, ctx, da, x, y, RF, "faulted")

    def _decompose(self, scn, ctx, da, R, windows):
        """Model selection: the returned models are those of the first successful attempt in the
        documented order (peak-major, background-minor)."""
        pm, bm = scn["peak"]["models"], scn["background"]["models"]
        if len(pm) * len(bm) < 2:
            return
        for i, r in enumerate(R):
            outcomes = []
            for p in pm:
                for b in bm:
                    s2 = dict(scn, peak={"as": "name", "models": [p]}, background={"as": "name", "models": [b]})
                    A, e, _ = self._fit(s2, ctx, da, [scn["estimates"][i]], [windows[i]], None, None,
                                        f"attempt {p}+{b} peak {i}")
                    outcomes.append((p, b, None if e else A[0]))
            first = next(((p, b, a) for p, b, a in outcomes if a is not None and a.assessment.name == "success"), None)
            got = (model_kind(r.peak), {2: "linear", 3: "quadratic"}[len(r.background.param_names)])
            if first is not None:
                if r.assessment.name != "success" or got != (first[0], first[1]):
                    ctx.violate("model_selection", f"peak {i}: attempt {first[0]}+{first[1]} is the first "
                                f"successful one in the documented order, but fit_peaks returned "
                                f"{got[0]}+{got[1]} ({r.assessment.name})", kind="model_selection:order")
                elif canon_result(first[2])[9:] != canon_result(r)[9:]:
                    ctx.violate("model_selection", f"peak {i}: parameters differ from fitting "
                                f"{first[0]}+{first[1]} directly", kind="model_selection:params")
            elif r.assessment.name == "success":
                ctx.violate("model_selection", f"peak {i}: no single attempt succeeds but fit_peaks reports "
                            "success", kind="model_selection:phantom")
            ctx.count("model_selection_checked")

    def _judge_remove(self, scn, ctx, da, x, y, results, where):
        import scipp as sc
        from scippneutron.peaks import remove_peaks

        bare = sc.DataArray(sc.values(da.data), coords={"x": da.coords["x"]})
        pristine = bare.copy()
        # fit_results is documented as Iterable[FitResult]: hand it over in the container kinds
        # callers use (the list from fit_peaks, a tuple, one-shot iterators)
        kind = scn.get("results_as", "list")
        ctx.probe("remove_results_as_" + kind)
        handed = {"list": lambda: results, "tuple": lambda: tuple(results),
                  "generator": lambda: (r for r in results), "iter": lambda: iter(list(results)),
                  "map": lambda: map(lambda r: r, results)}[kind]()
        out, exc = core.capture(remove_peaks, bare, handed)
        if exc is not None:
            ctx.violate("remove", f"[{where}] remove_peaks raised {exc}", kind="remove:raised")
            return
        if not sc.identical(bare, pristine, equal_nan=True):
            ctx.violate("remove", f"[{where}] remove_peaks modified its input", kind="remove:input_modified")
        got = out.values
        exact = y.copy()
        ref = y.copy()
        inside = np.zeros(len(x), dtype=bool)
        for r in results:
            if r.assessment.name != "success":
                continue
            a, b = float(r.window.values[0]), float(r.window.values[1])
            m = (x >= a) & (x < b)
            inside |= m
            if m.any():
                pv = r.eval_peak(sc.array(dims=["x"], values=x[m], unit=scn["coord_unit"])).values
                exact[m] = exact[m] - pv
                popt = {k: float(v.value) for k, v in r.popt.items()}
                ref[m] = ref[m] - ref_fit.eval_peak(model_kind(r.peak), x[m], popt)
        if not np.array_equal(got[~inside].view(np.uint64), y[~inside].view(np.uint64)):
            k = int(np.argmax(got[~inside] != y[~inside]))
            ctx.violate("remove", f"[{where}] remove_peaks changed a point outside all successful windows "
                        f"(x={x[~inside][k]})", kind="remove:outside")
        if inside.any():
            if not np.array_equal(got[inside], exact[inside]):
                ctx.violate("remove", f"[{where}] inside successful windows the result is not data - "
                            "eval_peak(x)", kind="remove:not_exact")
            scale = np.maximum(np.abs(y[inside]), np.abs(ref[inside])) + 1e-300
            if np.any(np.abs(got[inside] - ref[inside]) > 1e-9 * scale + 1e-12):
                ctx.violate("remove", f"[{where}] subtracted peak differs from the closed-form peak model",
                            kind="remove:closed_form")
            ctx.probe("removal_inside_successful_window")
        if out.dims != bare.dims or out.shape != bare.shape:
            ctx.violate("remove", f"[{where}] shape changed", kind="remove:shape")
        ctx.count("removals_checked")

    # -------------------------------------------------------------- reporting
    def nontrivial(self, scn, res):
        c = res["counters"]
        fired = sum(v[1] for v in res["faults"].values())
        return bool(c.get("optimiser_calls", 0) > 0 and (fired or c.get("single_peak_references", 0) >= 2))

    def describe(self, scn):
        s = copy.deepcopy(scn)
        return s

    def shrink(self, scn, violation=None):
        s = scn
        hint = (violation or {}).get("hint") or {}
        if "plan" in hint and s["faults"]["mode"] != "plan":
            c = copy.deepcopy(s)
            c["faults"] = {"mode": "plan", "plan": hint["plan"]}
            yield c
        if s["faults"]["mode"] != "none":
            c = copy.deepcopy(s)
            c["faults"] = {"mode": "none"}
            yield c
        if s["faults"]["mode"] == "plan" and len(s["faults"]["plan"]) > 1:
            for j in range(len(s["faults"]["plan"])):
                c = copy.deepcopy(s)
                del c["faults"]["plan"][j]
                yield c
        for key in ("remove", "decompose"):
            if s.get(key):
                c = copy.deepcopy(s)
                c[key] = False
                yield c
        n = len(s["estimates"])
        if n > 1:
            for j in range(n):
                c = copy.deepcopy(s)
                del c["estimates"][j]
                if c["windows"]["mode"] == "explicit":
                    del c["windows"]["ranges"][j]
                if c["faults"]["mode"] == "plan":
                    c["faults"]["plan"] = [dict(a, peak=(a["peak"] - (a["peak"] > j)) if "peak" in a else a)
                                           for a in c["faults"]["plan"] if a.get("peak") != j]
                    if not c["faults"]["plan"]:
                        c["faults"] = {"mode": "none"}
                if c["faults"]["mode"] == "peak_full_fail":
                    c["faults"]["peak"] = 0
                yield c
        for key in ("peak", "background"):
            if len(s[key]["models"]) > 1:
                for j in range(len(s[key]["models"])):
                    c = copy.deepcopy(s)
                    del c[key]["models"][j]
                    yield c
            if s[key]["as"] != "name" and len(s[key]["models"]) == 1:
                c = copy.deepcopy(s)
                c[key]["as"] = "name"
                yield c
        for key in ("fit_parameters", "fit_requirements"):
            if s[key]:
                c = copy.deepcopy(s)
                c[key] = None
                yield c
        if len(s["truth"]["peaks"]) > 1:
            for j in range(len(s["truth"]["peaks"])):
                c = copy.deepcopy(s)
                del c["truth"]["peaks"][j]
                yield c
        if s["grid"]["kind"] != "uniform":
            c = copy.deepcopy(s)
            c["grid"]["kind"] = "uniform"
            yield c
        if s["grid"]["n"] > 20:
            c = copy.deepcopy(s)
            c["grid"]["n"] = max(20, s["grid"]["n"] // 2)
            yield c
        hint = (violation or {}).get("hint") or {}
        if s.get("interleave") and "il_where" in hint and (
                s["interleave"].get("sweep") or s["interleave"].get("at") != hint["il_at"]):
            c = copy.deepcopy(s)
            c["interleave"] = {"where": hint["il_where"], "at": hint["il_at"],
                               "other_seed": s["interleave"]["other_seed"]}
            yield c
        if s.get("interleave") and (violation or {}).get("clause") != "isolation":
            c = copy.deepcopy(s)
            del c["interleave"]
            yield c
        for key, val in (("coord_unit", "one"), ("data_unit", "one"), ("coord_dtype", "float64"),
                         ("results_as", "list"), ("arg_dtype", "float64"), ("windows_layout", "peak_first")):
            if s.get(key, val) != val:
                c = copy.deepcopy(s)
                c[key] = val
                yield c


def make_engine(prop):
    return FitEngine()
