"""Reference model for C17: closed-form models written from the docstrings of
scippneutron.peaks.model, goodness-of-fit statistics written from the FitResult
docstrings, the documented FitRequirements and window construction rules.
numpy + scipy.stats only; imports nothing from scippneutron.
"""

from __future__ import annotations

import math

import numpy as np
from scipy.stats import chi2 as _chi2


def gaussian(x, amplitude, loc, scale):
    scale = max(scale, 1e-15)
    return amplitude / (math.sqrt(2 * math.pi) * scale) * np.exp(-((x - loc) ** 2) / (2 * scale**2))


def lorentzian(x, amplitude, loc, scale):
    scale = max(scale, 1e-15)
    return amplitude / math.pi * scale / ((x - loc) ** 2 + scale**2)


def pseudo_voigt(x, amplitude, loc, scale, fraction):
    sg = scale / math.sqrt(2 * math.log(2))
    return fraction * lorentzian(x, amplitude, loc, scale) + (1 - fraction) * gaussian(x, amplitude, loc, sg)


def polynomial(x, coeffs):
    out = np.zeros_like(x, dtype=float)
    for i, a in enumerate(coeffs):
        out = out + a * x**i
    return out


def eval_peak(kind: str, x, p: dict, prefix="peak_"):
    a, mu, s = p[prefix + "amplitude"], p[prefix + "loc"], p[prefix + "scale"]
    if kind == "gaussian":
        return gaussian(x, a, mu, s)
    if kind == "lorentzian":
        return lorentzian(x, a, mu, s)
    if kind == "pseudo_voigt":
        return pseudo_voigt(x, a, mu, s, p[prefix + "fraction"])
    raise ValueError(kind)


def eval_background(degree: int, x, p: dict, prefix="bkg_"):
    return polynomial(x, [p[f"{prefix}a{i}"] for i in range(degree + 1)])


def fwhm(kind: str, p: dict, prefix="peak_"):
    s = p[prefix + "scale"]
    if kind == "gaussian":
        return 2 * math.sqrt(2 * math.log(2)) * s
    return 2 * s


def n_params(kind: str, degree: int) -> int:
    return (4 if kind == "pseudo_voigt" else 3) + degree + 1


def stats(x, y, var, model_values, k: int):
    """(red_chisq, p_value, aic) from the definitions in the FitResult docstrings."""
    n = len(x)
    chisq = float(np.sum((y - model_values) ** 2 / var))
    ndof = n - k
    with np.errstate(all="ignore"):
        red = chisq / ndof if ndof != 0 else (math.inf if chisq > 0 else math.nan)
        p = float(1 - _chi2(ndof).cdf(chisq)) if ndof > 0 else math.nan
        aic = n * math.log(chisq / n) + 2 * k if chisq > 0 else -math.inf
    return chisq, red, p, aic


def close(a: float, b: float, rel=1e-9, abs_=1e-12) -> bool:
    if math.isnan(a) or math.isnan(b):
        return math.isnan(a) and math.isnan(b)
    if math.isinf(a) or math.isinf(b):
        return a == b
    return abs(a - b) <= max(abs_, rel * max(abs(a), abs(b)))
