"""An independent CIF 1.1 tokenizer / parser (reference model for C14).

Written from the CIF 1.1 syntax specification (IUCr, "CIF 1.1 syntax specification",
including its formal grammar): it implements the grammar, not the habits of the
writer under test.  Imports nothing from scippneutron.

Lexical rules implemented
  * allowed characters: printable ASCII, HT, LF, CR (anything else is an error);
  * line terminators LF, CRLF, CR; white space = SP, HT, EOL;
  * a comment starts with '#' at the start of a token and runs to end of line;
  * <UnquotedString> may not start with one of  " # $ ' _ [ ]  and may start with ';'
    only when not in column 1; it ends at the next white space;
  * reserved words, case-insensitive: data_<name>, save_<name>, loop_, stop_, global_
    (data_ / save_ must be followed by at least one non-blank character);
  * a tag is '_' followed by at least one non-blank character;
  * quoted strings start with ' or " at token start, end at the first matching quote
    that is followed by white space or end of file, and may not contain a line break;
  * a text field starts with ';' in column 1 and ends at the next line that starts
    with ';'; its value is the text in between (first line = rest of the opening line);
  * lines longer than 2048 characters: reported as warning only.
Structure
  * everything must be inside a data block; data block names unique (case-insens.);
  * a tag is followed by exactly one value; loop_ is followed by >=1 tags and then a
    positive multiple of that many values; a tag may occur only once per block.
"""

from __future__ import annotations

import re


class CifSyntaxError(Exception):
    def __init__(self, msg: str, line: int, col: int, production: str = ""):
        super().__init__(f"line {line} col {col}: {msg}")
        self.msg, self.line, self.col, self.production = msg, line, col, production


NUMBER = re.compile(r"^[+-]?(?:\d+\.?\d*|\.\d+)(?:[eE][+-]?\d+)?(?:\((\d+)\))?$")
_RESERVED_START = set("\"#$'_[]")


def _split_lines(text: str) -> list[str]:
    # LF, CRLF, CR
    return re.split(r"\r\n|\n|\r", text)


def tokenize(text: str):
    """Yield tokens (kind, value, line, col). kinds: DATA, SAVE, LOOP, STOP, GLOBAL, TAG,
    VALUE(subkind unquoted|squote|dquote|text), COMMENT."""
    for i, ch in enumerate(text):
        o = ord(ch)
        if not (32 <= o <= 126 or ch in "\t\n\r"):
            line = text.count("\n", 0, i) + 1
            raise CifSyntaxError(f"character {ch!r} (U+{o:04X}) is not allowed in CIF 1.1",
                                 line, 0, "<AnyPrintChar>")
    lines = _split_lines(text)
    warnings = []
    tokens = []
    ln = 0
    n = len(lines)
    while ln < n:
        line = lines[ln]
        if len(line) > 2048:
            warnings.append(f"line {ln + 1} longer than 2048 characters")
        if line.startswith(";"):
            # text field
            start = ln
            parts = [line[1:]]
            ln += 1
            while True:
                if ln >= n:
                    raise CifSyntaxError("text field opened with ';' is never closed",
                                         start + 1, 1, "<SemiColonTextField>")
                if lines[ln].startswith(";"):
                    break
                parts.append(lines[ln])
                ln += 1
            tokens.append(("VALUE", ("text", "\n".join(parts)), start + 1, 1))
            # rest of the closing line continues after the ';' (must be white space first)
            rest = lines[ln][1:]
            if rest and rest[0] not in " \t":
                raise CifSyntaxError(
                    f"closing ';' of text field must be followed by white space, got {rest[:10]!r}",
                    ln + 1, 2, "<SemiColonTextField>")
            _scan_line(rest, ln + 1, 1, tokens, lines)
            ln += 1
            continue
        _scan_line(line, ln + 1, 0, tokens, lines)
        ln += 1
    return tokens, warnings


def _scan_line(line: str, lineno: int, offset: int, tokens: list, lines) -> None:
    i = 0
    L = len(line)
    while i < L:
        ch = line[i]
        if ch in " \t":
            i += 1
            continue
        col = i + 1 + offset
        if ch == "#":
            tokens.append(("COMMENT", line[i + 1:], lineno, col))
            return
        if ch in "'\"":
            j = i + 1
            while True:
                k = line.find(ch, j)
                if k < 0:
                    raise CifSyntaxError(
                        f"quoted string opened with {ch} is not closed on the same line",
                        lineno, col, "<SingleQuotedString>" if ch == "'" else "<DoubleQuotedString>")
                if k + 1 >= L or line[k + 1] in " \t":
                    break
                j = k + 1
            tokens.append(("VALUE", ("squote" if ch == "'" else "dquote", line[i + 1:k]), lineno, col))
            i = k + 1
            continue
        # bare token up to white space
        j = i
        while j < L and line[j] not in " \t":
            j += 1
        word = line[i:j]
        low = word.lower()
        if ch == "_":
            if len(word) < 2:
                raise CifSyntaxError("'_' without a tag name", lineno, col, "<Tag>")
            tokens.append(("TAG", word, lineno, col))
        elif low.startswith("data_"):
            if len(word) == 5:
                raise CifSyntaxError("data_ heading without a block name", lineno, col,
                                     "<DataBlockHeading>")
            tokens.append(("DATA", word[5:], lineno, col))
        elif low.startswith("save_"):
            tokens.append(("SAVE", word[5:], lineno, col))
        elif low == "loop_":
            tokens.append(("LOOP", word, lineno, col))
        elif low == "stop_":
            tokens.append(("STOP", word, lineno, col))
        elif low == "global_":
            tokens.append(("GLOBAL", word, lineno, col))
        elif ch in _RESERVED_START or (ch == ";" and col == 1):
            raise CifSyntaxError(
                f"unquoted value {word[:20]!r} starts with reserved character {ch!r}",
                lineno, col, "<UnquotedString>")
        else:
            tokens.append(("VALUE", ("unquoted", word), lineno, col))
        i = j


def parse(text: str) -> dict:
    """Parse a CIF 1.1 document.  Returns {'blocks': [...], 'comments': [...],
    'warnings': [...]}; raises CifSyntaxError."""
    tokens, warnings = tokenize(text)
    blocks: list[dict] = []
    comments = [(ln, txt) for kind, txt, ln, _ in tokens if kind == "COMMENT"]
    toks = [t for t in tokens if t[0] != "COMMENT"]
    cur = None
    i = 0
    names = set()
    while i < len(toks):
        kind, val, ln, col = toks[i]
        if kind == "DATA":
            if val.lower() in names:
                raise CifSyntaxError(f"duplicate data block name {val!r}", ln, col, "<DataBlock>")
            names.add(val.lower())
            cur = {"name": val, "items": [], "tags": set(), "line": ln}
            blocks.append(cur)
            i += 1
        elif kind in ("SAVE", "GLOBAL", "STOP"):
            raise CifSyntaxError(f"reserved word {kind.lower()}_ is not allowed in a CIF 1.1 data "
                                 "file", ln, col, "<reserved>")
        elif cur is None:
            raise CifSyntaxError(f"{kind} token {val!r} before any data_ heading", ln, col, "<CIF>")
        elif kind == "TAG":
            if i + 1 >= len(toks) or toks[i + 1][0] != "VALUE":
                nxt = toks[i + 1][:2] if i + 1 < len(toks) else "end of file"
                raise CifSyntaxError(f"tag {val} is not followed by a value but by {nxt}",
                                     ln, col, "<DataItems>")
            _add_tag(cur, val, ln, col)
            cur["items"].append(("pair", val, toks[i + 1][1], ln))
            i += 2
        elif kind == "LOOP":
            j = i + 1
            tags = []
            while j < len(toks) and toks[j][0] == "TAG":
                tags.append(toks[j][1])
                _add_tag(cur, toks[j][1], toks[j][2], toks[j][3])
                j += 1
            if not tags:
                raise CifSyntaxError("loop_ without tags", ln, col, "<LoopHeader>")
            vals = []
            while j < len(toks) and toks[j][0] == "VALUE":
                vals.append(toks[j][1])
                j += 1
            if not vals:
                raise CifSyntaxError(f"loop_ {tags} has no values", ln, col, "<LoopBody>")
            if len(vals) % len(tags):
                raise CifSyntaxError(
                    f"loop_ with {len(tags)} tags has {len(vals)} values (not a multiple)",
                    ln, col, "<LoopBody>")
            rows = [vals[k:k + len(tags)] for k in range(0, len(vals), len(tags))]
            cur["items"].append(("loop", tags, rows, ln))
            i = j
        elif kind == "VALUE":
            raise CifSyntaxError(f"value {val[1][:30]!r} ({val[0]}) without a tag", ln, col,
                                 "<DataItems>")
        else:
            raise CifSyntaxError(f"unexpected token {kind}", ln, col)
    for b in blocks:
        del b["tags"]
    return {"blocks": blocks, "comments": comments, "warnings": warnings}


def _add_tag(block: dict, tag: str, ln: int, col: int) -> None:
    key = tag.lower()
    if key in block["tags"]:
        raise CifSyntaxError(f"tag {tag} occurs more than once in data block {block['name']}",
                             ln, col, "<DataBlock>")
    block["tags"].add(key)


def parse_number(text: str):
    """Return (value, su|None) if text is a CIF number, else None."""
    m = NUMBER.match(text)
    if not m:
        return None
    su_digits = m.group(1)
    base = text[: text.index("(")] if su_digits is not None else text
    value = float(base)
    if su_digits is None:
        return value, None
    # su applies to the last printed digits of the mantissa
    mant = base.lower().split("e")[0]
    exp = int(base.lower().split("e")[1]) if "e" in base.lower() else 0
    decimals = len(mant.split(".")[1]) if "." in mant else 0
    su = int(su_digits) * 10.0 ** (exp - decimals)
    return value, su
