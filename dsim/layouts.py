"""Memory layouts of what a caller hands over: the same logical 1-d variable as its own
buffer, as a window into a longer buffer (offset view) or as one column of a 2-d array
(strided, non-contiguous view).  Logical content is identical (checked)."""

from __future__ import annotations

from . import core

KINDS = ["plain", "slice", "strided"]


def embed(var, dim: str, how: str):
    import scipp as sc

    if how == "plain" or var.ndim != 1 or var.sizes[dim] == 0:
        return var
    n = var.sizes[dim]
    junk = var.copy()
    if how == "slice":
        front = junk[dim, : min(3, n)]
        big = sc.concat([front, var, junk[dim, : min(4, n)]], dim)
        out = big[dim, front.sizes[dim]: front.sizes[dim] + n]
    elif how == "strided":
        out = sc.concat([junk, var, junk], "k__").transpose([dim, "k__"]).copy()["k__", 1]
    else:
        raise core.HarnessError(f"unknown layout {how}")
    if not sc.identical(out, var, equal_nan=True):
        raise core.HarnessError("embedding changed the values")
    return out
