"""Driver: shards seeds over zygotes, collects results, triages, minimises, reports.

The driver never imports scipp / scippneutron; everything that touches the library
happens in children of the zygotes (dsim/zygote.py).
"""

from __future__ import annotations

import json
import os
import subprocess
import sys
import threading
import time

from . import core

VERIF_ROOT = os.path.dirname(os.path.dirname(os.path.abspath(__file__)))
PY = os.environ.get("DSIM_PYTHON", "/venv/bin/python")
ZYGOTE = os.path.join(VERIF_ROOT, "dsim", "zygote.py")
FINDINGS = os.path.join(VERIF_ROOT, "known_findings.json")
CLAIMED = ("C09", "C12", "C13", "C14", "C15", "C17", "C20")


def src_root() -> str:
    return os.path.abspath(os.environ.get("DSIM_SRC") or "/repo/src")


def n_workers() -> int:
    if os.environ.get("DSIM_WORKERS"):
        return max(1, int(os.environ["DSIM_WORKERS"]))
    return max(1, min(16, len(os.sched_getaffinity(0))))


class Zygote:
    def __init__(self, prop: str, cpu: int, hashseed: str = "0", src: str | None = None):
        env = dict(os.environ)
        env["PYTHONHASHSEED"] = hashseed
        env["PYTHONDONTWRITEBYTECODE"] = "1"
        env.pop("PYTHONPATH", None)
        # no UTF-8 mode: the default text encoding follows LC_CTYPE, which runs can switch
        # (core.apply_process_env); the pipe protocol itself is pinned to UTF-8
        for k in [k for k in env if k.startswith("LC_") or k in ("LANG", "LANGUAGE")]:
            del env[k]
        env.update(PYTHONUTF8="0", PYTHONCOERCECLOCALE="0", LC_ALL="C.UTF-8", PYTHONIOENCODING="utf-8")
        cfg = {"prop": prop, "cpu": cpu, "src": src or src_root()}
        self.proc = subprocess.Popen(
            [PY, "-X", "faulthandler", ZYGOTE, json.dumps(cfg)],
            stdin=subprocess.PIPE,
            stdout=subprocess.PIPE,
            stderr=subprocess.PIPE,
            env=env,
            text=True,
            encoding="utf-8",
            cwd=VERIF_ROOT,
        )
        self._err: list[str] = []
        self._t = threading.Thread(target=self._drain, daemon=True)
        self._t.start()
        self.hello = self._read()
        if "fatal" in self.hello or not self.hello.get("ready"):
            raise core.HarnessError(f"zygote failed to start: {self.hello}")

    def _drain(self) -> None:
        for line in self.proc.stderr:
            if len(self._err) < 400:
                self._err.append(line)

    def _read(self) -> dict:
        line = self.proc.stdout.readline()
        if not line:
            self.proc.wait()
            raise core.HarnessError(
                "zygote died: exit=%s stderr=%s"
                % (self.proc.returncode, "".join(self._err)[-3000:])
            )
        return json.loads(line)

    def call(self, cmd: dict) -> dict:
        self.proc.stdin.write(json.dumps(cmd) + "\n")
        self.proc.stdin.flush()
        return self._read()

    def close(self) -> None:
        try:
            self.proc.stdin.write('{"cmd":"quit"}\n')
            self.proc.stdin.flush()
            self.proc.stdin.close()
        except Exception:
            pass
        try:
            self.proc.wait(timeout=10)
        except Exception:
            self.proc.kill()

    def stderr_tail(self) -> str:
        return "".join(self._err)[-3000:]


# ---------------------------------------------------------------------------
# known findings


def load_findings() -> dict:
    if not os.path.exists(FINDINGS):
        return {"findings": [], "fixed": []}
    with open(FINDINGS) as f:
        return json.load(f)


def match_finding(findings: dict, prop: str, v: dict) -> dict | None:
    for f in findings.get("findings", []):
        fc = f.get("clause")
        if f.get("property") != prop or not (v["clause"] == fc or (isinstance(fc, list) and v["clause"] in fc)):
            continue
        if all(v["sig"].get(k) == val for k, val in f.get("match", {}).items()):
            return f
    return None


def vclass(v: dict) -> tuple:
    """Violation class: what must stay the same while shrinking, and the grouping key."""
    return (v["clause"], core.jdump(v["sig"].get("group", v["sig"].get("kind"))))


# ---------------------------------------------------------------------------
# batch execution


def run_batches(prop: str, tier: str, vseed: int, n: int, meta_out: dict,
                hashseed: str = "0", workers: int | None = None,
                indices: list[int] | None = None, deadline_s: float | None = None):
    W = workers or n_workers()
    W = max(1, min(W, n if indices is None else len(indices)))
    zs: list[Zygote] = []
    results: list[dict | None] = [None] * W
    errors: list[str] = []

    def work(w: int) -> None:
        try:
            z = Zygote(prop, cpu=w, hashseed=hashseed)
            zs.append(z)
            if w == 0:
                meta_out.update(z.hello)
            cmd = {
                "cmd": "batch",
                "tier": tier,
                "verif_seed": vseed,
                "timeout": z.hello["meta"]["timeout"][tier],
                "samples": 2 if w == 0 else 0,
                "deadline_s": deadline_s,
            }
            if indices is None:
                cmd.update(start=w, stop=n, step=W)
            else:
                cmd.update(indices=indices[w::W])
            results[w] = z.call(cmd)
            z.close()
        except Exception as e:  # noqa: BLE001
            errors.append(f"worker {w}: {e!r}")

    threads = [threading.Thread(target=work, args=(w,)) for w in range(W)]
    for t in threads:
        t.start()
    for t in threads:
        t.join()
    if errors:
        raise core.HarnessError("; ".join(errors))
    return [r for r in results if r is not None], W


def merge(results: list[dict]) -> dict:
    m = {
        "runs": 0, "n_failures": 0, "failures": [], "harness_errors": [],
        "counters": {}, "probes": {}, "faults": {}, "digests": {},
        "nontrivial": set(), "scen": set(), "shapes": set(), "sites": set(),
        "samples": [], "n_events": 0, "sim_time_span_s": 0.0, "threads": set(),
        "worker_wall_s": [],
    }
    for r in results:
        m["runs"] += r["runs"]
        m["n_failures"] += r["n_failures"]
        m["failures"] += r["failures"]
        m["harness_errors"] += r["harness_errors"]
        core.merge_counts(m["counters"], r["counters"])
        core.merge_counts(m["probes"], r["probes"])
        for k, (c, f) in r["faults"].items():
            e = m["faults"].setdefault(k, [0, 0])
            e[0] += c
            e[1] += f
        m["digests"].update(r["digests"])
        m["nontrivial"].update(r["nontrivial_digests"])
        m["scen"].update(r["scen_digests"])
        m["shapes"].update(r["shapes"])
        m["sites"].update(r["sites"])
        m["samples"] += r["samples"]
        m["n_events"] += r["n_events"]
        m["sim_time_span_s"] += r["sim_time_span_s"]
        m["threads"].add(r["threads"])
        m["worker_wall_s"].append(round(r["wall_s"], 2))
        if "stopped_at_deadline" in r:
            m["stopped_at_deadline"] = True
    m["failures"].sort(key=lambda f: f["i"])
    return m


# ---------------------------------------------------------------------------
# minimisation and replay


def has_class(res: dict, cls: tuple) -> dict | None:
    for v in res.get("violations", []):
        if vclass(v) == cls:
            return v
    return None


def minimise(z: Zygote, scenario: dict, cls: tuple, timeout: int,
             max_execs: int = 1500, max_wall: float = 150.0):
    t0 = time.monotonic()
    execs = 0
    steps = 0
    progress = True
    tried = {core.jdump(scenario)}
    viol = None
    while progress and execs < max_execs and time.monotonic() - t0 < max_wall:
        progress = False
        cands = z.call({"cmd": "shrink", "scenario": scenario, "violation": viol}).get("candidates", [])
        for cand in cands:
            if execs >= max_execs or time.monotonic() - t0 > max_wall:
                break
            key = core.jdump(cand)
            if key in tried:
                continue
            tried.add(key)
            res = z.call({"cmd": "exec", "scenario": cand, "timeout": timeout})
            execs += 1
            if "harness_error" in res:
                continue
            vv = has_class(res, cls)
            if vv:
                scenario = cand
                viol = vv
                steps += 1
                progress = True
                break
    return scenario, {"execs": execs, "accepted_steps": steps,
                      "wall_s": round(time.monotonic() - t0, 2)}


def write_replay(prop: str, v: dict, scenario: dict, digest: str, seed, info: dict) -> str:
    d = os.environ.get("DSIM_REPLAY_DIR") or os.path.join(VERIF_ROOT, "replays")
    os.makedirs(d, exist_ok=True)
    name = f"{prop}-{v['clause']}-{core.h64(core.jdump(scenario))}.json".replace("/", "_")
    path = os.path.join(d, name)
    with open(path, "w") as f:
        json.dump(
            {
                "property": prop,
                "clause": v["clause"],
                "sig": v["sig"],
                "msg": v["msg"],
                "origin_seed": seed,
                "digest": digest,
                "minimisation": info,
                "scenario": scenario,
            },
            f, indent=1, sort_keys=True, default=core._jdefault,
        )
    return path


def replay_file(path: str, quiet: bool = False) -> int:
    with open(path) as f:
        rp = json.load(f)
    prop = rp["property"]
    z = Zygote(prop, cpu=0)
    try:
        timeout = z.hello["meta"]["timeout"]["thorough"]
        res = z.call({"cmd": "exec", "scenario": rp["scenario"], "timeout": timeout,
                      "want_events": not quiet})
    finally:
        z.close()
    if "harness_error" in res:
        print(f"HARNESS-ERROR during replay: {res['harness_error']}")
        return 2
    same = [v for v in res["violations"] if v["clause"] == rp["clause"]]
    if not quiet:
        for ev in res.get("events", [])[-60:]:
            print("  event", json.dumps(ev, default=core._jdefault)[:300])
    print(f"replay digest={res['digest']} recorded={rp.get('digest')}")
    if same:
        print(f"  clause {same[0]['clause']}: {same[0]['msg']}")
        print(f"VIOLATION property={prop} replay={path}")
        if rp.get("digest") and rp["digest"] != res["digest"]:
            print("HARNESS-NONDETERMINISM: violation reproduced but event digest differs")
            return 2
        return 1
    if res["violations"]:
        v = res["violations"][0]
        print(f"  different clause {v['clause']}: {v['msg']}")
        print(f"VIOLATION property={prop} replay={path}")
        return 1
    print("replay: no violation on this tree")
    return 0


# ---------------------------------------------------------------------------
# the check


def run_check(prop: str, tier: str) -> int:
    t0 = time.monotonic()
    vseed = int(os.environ.get("VERIF_SEED", "0") or 0)
    print(f"dsim check property={prop} tier={tier} VERIF_SEED={vseed} src={src_root()}")
    core.sweep_stale_scratch()
    meta: dict = {}
    # budget comes from the engine (reported by the zygote); ask one zygote first
    z0 = Zygote(prop, cpu=0)
    meta.update(z0.hello)
    m = meta["meta"]
    n = int(os.environ.get("DSIM_RUNS") or m["budget"][tier])
    deadline = float(os.environ.get("DSIM_DEADLINE_S") or m["deadline"][tier])
    try:
        results, W = run_batches(prop, tier, vseed, n, {}, deadline_s=deadline)
        mg = merge(results)

        exit_code = 0
        lines: list[str] = []
        if mg["harness_errors"]:
            for he in mg["harness_errors"][:5]:
                print(f"HARNESS-ERROR run i={he['i']} seed={he['seed']}: {he['error']}")
            exit_code = 2

        # --- determinism spot check: 2 % of the seeds under another hash seed
        det = {"rechecked": 0, "mismatches": 0}
        if exit_code == 0 and mg["runs"] > 0:
            done = sorted(int(k) for k in mg["digests"])
            stride = max(1, len(done) // max(8, len(done) // 50))
            sample = done[::stride][: max(8, len(done) // 50)]
            r2, _ = run_batches(prop, tier, vseed, n, {}, hashseed="424242",
                                workers=min(W, 8), indices=sample)
            m2 = merge(r2)
            det["rechecked"] = len(m2["digests"])
            for k, d in m2["digests"].items():
                if mg["digests"].get(k) != d:
                    det["mismatches"] += 1
                    print(f"HARNESS-NONDETERMINISM run i={k}: digest {mg['digests'].get(k)} "
                          f"vs {d} under PYTHONHASHSEED=424242")
            if m2["harness_errors"]:
                print(f"HARNESS-ERROR in determinism recheck: {m2['harness_errors'][0]['error']}")
                exit_code = 2
            if det["mismatches"]:
                exit_code = 2

        # --- triage failures
        findings = load_findings()
        known_seen: dict[str, dict] = {}
        groups: dict[tuple, dict] = {}
        # every recorded finding carries its minimal failing scenario: it is executed in every
        # check, so the finding is re-observed (or noticed to be gone) independently of sampling
        for kf in findings.get("findings", []):
            if kf.get("property") != prop or "scenario" not in kf:
                continue
            r0 = z0.call({"cmd": "exec", "scenario": kf["scenario"], "timeout": m["timeout"][tier]})
            if "harness_error" in r0:
                print(f"HARNESS-ERROR executing the pinned scenario of {kf['id']}: {r0['harness_error']}")
                exit_code = 2
            elif r0["violations"]:
                known_seen.setdefault(kf["id"], {"finding": kf, "count": 0, "example": "pinned scenario"})
                known_seen[kf["id"]]["count"] += 1
            else:
                lines.append(f"  note: recorded finding {kf['id']} does not reproduce on this tree "
                             "(its pinned scenario passes)")
        # regression scenarios: minimised scenarios of defects that were found (often only at the
        # thorough tier) and repaired; executed in every check, judged like any sampled run
        reg_dir = os.path.join(VERIF_ROOT, "regressions", prop)
        n_reg = 0
        if os.path.isdir(reg_dir):
            for name in sorted(os.listdir(reg_dir)):
                if not name.endswith(".json"):
                    continue
                with open(os.path.join(reg_dir, name)) as f:
                    rp = json.load(f)
                r0 = z0.call({"cmd": "exec", "scenario": rp["scenario"], "timeout": m["timeout"][tier]})
                n_reg += 1
                if "harness_error" in r0:
                    print(f"HARNESS-ERROR executing regression scenario {name}: {r0['harness_error']}")
                    exit_code = 2
                elif r0["violations"]:
                    mg["failures"].append({"i": -n_reg, "seed": f"regression:{name}", "scenario": rp["scenario"],
                                           "violations": r0["violations"], "digest": r0["digest"]})
                    mg["n_failures"] += 1
        mg["counters"]["regression_scenarios_executed"] = n_reg
        cf_findings = [f for f in findings.get("findings", [])
                       if f.get("property") == prop and f.get("counterfactual")]
        timeout = m["timeout"][tier]
        for fl in mg["failures"]:
            # counterfactual attribution: neutralise the trigger of a recorded finding; if the
            # run then passes, the recorded defect was the only cause; otherwise carry on with the
            # neutralised scenario so that the recorded defect cannot mask anything else
            for kf in cf_findings:
                sc2 = z0.call({"cmd": "counterfactual", "name": kf["counterfactual"],
                               "scenario": fl["scenario"]}).get("scenario")
                if sc2 is None or core.jdump(sc2) == core.jdump(fl["scenario"]):
                    continue
                r2 = z0.call({"cmd": "exec", "scenario": sc2, "timeout": timeout})
                if "harness_error" in r2:
                    continue
                known_seen.setdefault(kf["id"], {"finding": kf, "count": 0, "example": fl["seed"]})
                known_seen[kf["id"]]["count"] += 1
                fl["scenario"], fl["violations"], fl["digest"] = sc2, r2["violations"], r2["digest"]
                fl["counterfactual_applied"] = kf["id"]
            for v in fl["violations"]:
                kf = match_finding(findings, prop, v)
                if kf is not None:
                    known_seen.setdefault(kf["id"], {"finding": kf, "count": 0, "example": fl["seed"]})
                    known_seen[kf["id"]]["count"] += 1
                    continue
                groups.setdefault(vclass(v), {"v": v, "fl": fl, "count": 0})["count"] += 1
        for kid, ks in sorted(known_seen.items()):
            lines.append(
                f"KNOWN-FINDING: property={prop} {ks['finding']['what']} "
                f"[{kid}; seen in {ks['count']} violation records, e.g. seed {ks['example']}]"
            )
        replays = []
        for cls, g in sorted(groups.items(), key=lambda kv: kv[1]["fl"]["i"]):
            lines.append(f"  class clause={cls[0]} kind={cls[1]} records={g['count']} "
                         f"first_i={g['fl']['i']} :: {g['v']['msg'][:160]}")
        for cls, g in list(sorted(groups.items(), key=lambda kv: kv[1]["fl"]["i"]))[:4]:
            fl, v = g["fl"], g["v"]
            scen, info = minimise(z0, fl["scenario"], cls, timeout,
                                  max_wall=45.0 if tier == "quick" else 300.0)
            res = z0.call({"cmd": "exec", "scenario": scen, "timeout": timeout})
            vv = has_class(res, cls) if "harness_error" not in res else None
            if vv is None:  # minimised does not reproduce: fall back to the original
                scen, info = fl["scenario"], {"note": "minimised scenario did not reproduce"}
                res = z0.call({"cmd": "exec", "scenario": scen, "timeout": timeout})
                vv = has_class(res, cls) if "harness_error" not in res else None
            if vv is None:
                print(f"HARNESS-NONDETERMINISM: violation {cls} of run i={fl['i']} "
                      f"seed={fl['seed']} does not reproduce")
                exit_code = 2
                continue
            # is the *minimised* case a known finding?  (shrinking may land on one)
            kf = match_finding(findings, prop, vv)
            if kf is not None:
                if kf["id"] not in known_seen:
                    known_seen[kf["id"]] = {"finding": kf, "count": g["count"], "example": fl["seed"]}
                    lines.append(f"KNOWN-FINDING: property={prop} {kf['what']} [{kf['id']}; "
                                 f"identified after minimising seed {fl['seed']}]")
                continue
            path = write_replay(prop, vv, scen, res["digest"], fl["seed"], info)
            # replay in a brand-new zygote
            zr = Zygote(prop, cpu=1)
            try:
                res2 = zr.call({"cmd": "exec", "scenario": scen, "timeout": timeout})
            finally:
                zr.close()
            if "harness_error" in res2 or not has_class(res2, cls) or res2["digest"] != res["digest"]:
                print(f"HARNESS-NONDETERMINISM: replay of {path} differs in a fresh zygote")
                exit_code = 2
                continue
            replays.append(path)
            lines.append(f"  clause={vv['clause']} runs_affected={g['count']} first_seed={fl['seed']} "
                         f"minimisation={info} :: {vv['msg']}")
            lines.append(f"VIOLATION property={prop} replay={path}")
            if exit_code == 0:
                exit_code = 1
        if len(groups) > 4:
            lines.append(f"  ({len(groups) - 4} further violation classes not minimised)")
    finally:
        z0.close()

    wall = time.monotonic() - t0
    from . import evidence

    evidence.write(prop, tier, vseed, m, mg, det, W, wall,
                   n_violation_classes=len(groups), known=sorted(known_seen), replays=replays,
                   planned=n)
    for ln in lines:
        print(ln)
    rate = mg["runs"] / wall * 3600 if wall > 0 else 0
    print(f"runs={mg['runs']}/{n} distinct_scenarios={len(mg['scen'])} shapes={len(mg['shapes'])} "
          f"fault_sites={len(mg['sites'])} events={mg['n_events']} failures={mg['n_failures']} "
          f"wall={wall:.1f}s ({rate:,.0f} runs/h) determinism_rechecked={det['rechecked']} "
          f"mismatches={det['mismatches']} exit={exit_code}")
    return exit_code


def main(argv: list[str]) -> int:
    if len(argv) >= 2 and argv[0] in CLAIMED:
        tier = argv[1]
        if tier not in ("quick", "thorough"):
            print("tier must be quick|thorough")
            return 2
        return run_check(argv[0], tier)
    if len(argv) >= 2 and argv[0] == "replay":
        return replay_file(argv[1], quiet="--quiet" in argv)
    if argv and argv[0] == "selftest":
        from . import selftest
        return selftest.main(argv[1:])
    if argv and argv[0] == "sensitivity":
        from . import sensitivity
        return sensitivity.main(argv[1:])
    print("usage: check <C09|C12|C13|C14|C15|C17|C20> <quick|thorough> | replay <file> | "
          "selftest [light|full] | sensitivity [id ...]")
    return 2


def entry() -> None:
    try:
        code = main(sys.argv[1:])
    except core.HarnessError as e:
        print(f"HARNESS-ERROR: {e}")
        code = 2
    sys.exit(code)
